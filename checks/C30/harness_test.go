//go:build verif && !verifrace

package sleep

// C30 -- sleep mode follows its state machine for every interleaving.
//
// Schedules (engine E3): internal/sleep/sleep.go is mechanically rewritten (mutex / atomic /
// select / channel / timer / spawn operations are scheduling points; every statement of
// Manager.Poll is one too; time is virtual). A real sleep.Manager (persist on, scratch dir,
// jitter 0, poll interval 60 s, poll duration 5 s) with recording callbacks is driven by
//   pre     : operations main runs sequentially first (e.g. Sleep),
//   threads : 1-3 harness threads each running a list from {sleep, wake, wake@poll, wake@pollend};
//             the two gated forms wait (blocked, so the poll and duration timers fire for free) until
//             a poll is inside its OnPoll resp. OnPollEnd callback and then call Wake -- the callbacks
//             contain a scheduling point, so "a Wake lands while the poll is inside the callback"
//             costs a single preemption,
//   the poll timer armed by the code itself (AfterFunc pseudo-thread -> Manager.Poll) and the
//   in-poll time.After(PollDuration), both fired by the explorer,
//   OnPoll mode : plain | getstate (reads GetState) | wake (re-enters Wake, as agent.doPoll does),
//   and a final Wake by main once the threads are done (so that polling ends).
//
// Oracle (statement clauses):
//   edge    : every state change observed at a scheduling point is one of Awake->Sleeping,
//             Sleeping->Polling, Polling->Sleeping, Sleeping|Polling->Awake.
//   refuse  : Sleep()==nil iff the caller made Awake->Sleeping; ErrAlreadySleeping only if the state
//             was Sleeping/Polling at some point during the call, and then the caller changed nothing;
//             Wake()==nil iff the caller made Sleeping|Polling->Awake; ErrNotSleeping only if the
//             state was Awake at some point during the call.
//   stale   : a Poll "starts" when it stores Polling. Once a Wake() has returned nil, a Poll that
//             started before that return does not begin OnPoll, does not begin OnPollEnd and does not
//             change the state to Sleeping.
//   persist : when the execution has ended (no call in progress) the state file decodes to the
//             in-memory state.

import (
	"encoding/json"
	"errors"
	"fmt"
	"os"
	"path/filepath"
	"strings"
	"testing"
	"time"

	"github.com/postalsys/muti-metroo/internal/config"
	"github.com/postalsys/muti-metroo/internal/vmc"
	"github.com/postalsys/muti-metroo/internal/vmc/sched"
	"github.com/postalsys/muti-metroo/internal/vmc/vsync"
)

type c30Scenario struct {
	Pre     []string   `json:"pre"`
	Threads [][]string `json:"threads"`
	OnPoll  string     `json:"on_poll"`
	History []string   `json:"history,omitempty"` // set: a replay artefact of the restart part (restart_test.go)
	Choices []int      `json:"choices,omitempty"`
}

func (sc c30Scenario) String() string {
	var th []string
	for _, t := range sc.Threads {
		th = append(th, strings.Join(t, ","))
	}
	return fmt.Sprintf("pre=[%s] threads=[%s] onpoll=%s", strings.Join(sc.Pre, ","), strings.Join(th, " | "), sc.OnPoll)
}

type c30Viol struct{ fp, what string }

type c30Call struct {
	seen  map[State]bool
	trans []string
}

type c30World struct {
	sc        c30Scenario
	m         *Manager
	last      State
	wakeEpoch int         // number of Wake() calls that have returned nil
	pollEpoch map[int]int // thread -> wakeEpoch when it stored Polling
	calls     map[int]*c30Call
	changes   int
	stalePoll bool // some Poll was still in progress when a Wake returned (collision)
	inOnPoll, inOnPollEnd bool // latched: some poll has entered the callback (gates of wake@poll / wake@pollend)
	polling   map[int]bool
	log       []string
	viol      []c30Viol
}

func (w *c30World) ev(format string, a ...any) {
	w.log = append(w.log, fmt.Sprintf("t%d:", sched.ThreadID())+fmt.Sprintf(format, a...))
}

func (w *c30World) violate(fp, format string, a ...any) {
	w.viol = append(w.viol, c30Viol{fp, w.sc.String() + ": " + fmt.Sprintf(format, a...) + fmt.Sprintf("; events %v", w.log)})
}

func c30Allowed(from, to State) bool {
	switch from {
	case StateAwake:
		return to == StateSleeping
	case StateSleeping:
		return to == StatePolling || to == StateAwake
	case StatePolling:
		return to == StateSleeping || to == StateAwake
	}
	return false
}

// observe runs at every scheduling point, in the context of the thread that ran since the
// previous point: a state change seen here was made by that thread.
func (w *c30World) observe() {
	st, _ := w.m.state.Peek().(State)
	for _, c := range w.calls {
		c.seen[st] = true
	}
	if st == w.last {
		return
	}
	tid := sched.ThreadID()
	from := w.last
	w.last = st
	w.changes++
	w.ev("%s->%s", from, st)
	if !c30Allowed(from, st) {
		w.violate(fmt.Sprintf("C30/bad-transition/%s->%s", from, st), "state changed %s -> %s", from, st)
	}
	if c := w.calls[tid]; c != nil {
		c.trans = append(c.trans, from.String()+"->"+st.String())
	}
	switch st {
	case StatePolling:
		w.pollEpoch[tid] = w.wakeEpoch
		w.polling[tid] = true
	case StateSleeping:
		if ep, isPoll := w.pollEpoch[tid]; isPoll && w.calls[tid] == nil && ep < w.wakeEpoch {
			w.violate("C30/stale-poll/returns-to-sleeping-after-wake", "a Poll that started before Wake #%d completed changed the state %s -> SLEEPING afterwards", w.wakeEpoch, from)
		}
	}
}

func (w *c30World) pollCallback(name string) {
	tid := sched.ThreadID()
	w.ev(name)
	ep, ok := w.pollEpoch[tid]
	if !ok {
		w.violate("C30/poll-callback-without-polling/"+name, "%s invoked by a thread that never stored POLLING", name)
		return
	}
	if ep < w.wakeEpoch {
		w.violate("C30/stale-poll/"+name+"-begins-after-wake", "%s began after Wake #%d had returned, on behalf of a Poll that started before it", name, w.wakeEpoch)
	}
}

// awake: no poll can reach its callbacks any more, so a gated Wake stops waiting (and is refused).
func (w *c30World) awake() bool {
	st, _ := w.m.state.Peek().(State)
	return st == StateAwake
}

// call runs one Sleep/Wake on the current thread and judges the result (clause refuse).
func (w *c30World) call(op string) {
	switch op { // gated forms: wait (blocked) until a poll is inside the callback, then it is a plain Wake
	case "wake@poll":
		sched.Block("wait-OnPoll", func() bool { return w.inOnPoll || w.awake() })
		op = "wake"
	case "wake@pollend":
		sched.Block("wait-OnPollEnd", func() bool { return w.inOnPollEnd || w.awake() })
		op = "wake"
	}
	tid := sched.ThreadID()
	outer := w.calls[tid] // re-entrant Wake from OnPoll: none outstanding for poll threads
	st, _ := w.m.state.Peek().(State)
	c := &c30Call{seen: map[State]bool{st: true}}
	w.calls[tid] = c
	var err error
	if op == "sleep" {
		err = w.m.Sleep()
	} else {
		err = w.m.Wake()
		if err == nil {
			w.wakeEpoch++
			for p := range w.polling {
				if p != tid {
					w.stalePoll = true
				}
			}
		}
	}
	if outer != nil {
		w.calls[tid] = outer
	} else {
		delete(w.calls, tid)
	}
	w.ev("%s()=%v", op, err)
	asleep := c.seen[StateSleeping] || c.seen[StatePolling]
	switch {
	case op == "sleep" && err == nil:
		if len(c.trans) != 1 || c.trans[0] != "AWAKE->SLEEPING" {
			w.violate("C30/sleep-accepted-without-transition", "Sleep() returned nil but the caller made transitions %v", c.trans)
		}
	case op == "sleep" && errors.Is(err, ErrAlreadySleeping):
		if !asleep {
			w.violate("C30/sleep-refused-while-awake", "Sleep() returned ErrAlreadySleeping although the state was AWAKE during the whole call")
		}
		if len(c.trans) != 0 {
			w.violate("C30/refused-call-changed-state/sleep", "refused Sleep() made transitions %v", c.trans)
		}
	case op == "wake" && err == nil:
		if len(c.trans) != 1 || !strings.HasSuffix(c.trans[0], "->AWAKE") {
			w.violate("C30/wake-accepted-without-transition", "Wake() returned nil but the caller made transitions %v", c.trans)
		}
	case op == "wake" && errors.Is(err, ErrNotSleeping):
		if !c.seen[StateAwake] {
			w.violate("C30/wake-refused-while-asleep", "Wake() returned ErrNotSleeping although the state was never AWAKE during the call")
		}
		if len(c.trans) != 0 {
			w.violate("C30/refused-call-changed-state/wake", "refused Wake() made transitions %v", c.trans)
		}
	default:
		w.violate("C30/unexpected-error/"+op, "%s() returned %v", op, err)
	}
}

var c30Dir string

func c30Run(sc c30Scenario, c *vmc.Chooser) (*c30World, sched.Outcome) {
	os.Remove(filepath.Join(c30Dir, "sleep_state.json"))
	os.Remove(filepath.Join(c30Dir, "sleep_state.json.tmp"))
	cfg := config.SleepConfig{Enabled: true, PollInterval: 60 * time.Second, PollIntervalJitter: 0, PollDuration: 5 * time.Second, PersistState: true}
	m := NewManager(cfg, c30Dir, nil)
	w := &c30World{sc: sc, m: m, last: StateAwake, pollEpoch: map[int]int{}, calls: map[int]*c30Call{}, polling: map[int]bool{}}
	m.SetCallbacks(Callbacks{
		OnSleep: func() error { w.ev("OnSleep"); return nil },
		OnWake:  func() error { w.ev("OnWake"); return nil },
		OnPoll: func() error {
			w.pollCallback("OnPoll")
			w.inOnPoll = true
			sched.Point("in-OnPoll") // the reconnect takes a while: other threads may run meanwhile
			switch sc.OnPoll {
			case "getstate":
				w.ev("GetState=%s", m.GetState())
			case "wake":
				w.call("wake")
			}
			return nil
		},
		OnPollEnd: func() error {
			w.pollCallback("OnPollEnd")
			w.inOnPollEnd = true
			sched.Point("in-OnPollEnd") // the disconnect takes a while
			return nil
		},
	})
	sched.Observer = w.observe
	defer func() { sched.Observer = nil }()
	out := sched.Run(c, sched.Opts{MaxSteps: 1200}, func() {
		for _, op := range sc.Pre {
			w.call(op)
		}
		var wg vsync.WaitGroup
		wg.Add(len(sc.Threads))
		for i, prog := range sc.Threads {
			prog := prog
			sched.GoNamed(fmt.Sprintf("T%d", i+1), func() {
				defer wg.Done()
				for _, op := range prog {
					w.call(op)
				}
			})
		}
		wg.Wait()
		w.call("wake") // ends the polling; refused if already awake
	})
	return w, out
}

func c30Check(r *vmc.Result, sc c30Scenario, w *c30World, out sched.Outcome, choices []int) {
	rep := func() any { s := sc; s.Choices = choices; return s }
	if out.Panic != nil {
		r.HarnessError("C30 %s: panic %v\n%s", sc, out.Panic, out.PanicStack)
		return
	}
	if out.Deadlock || out.Horizon {
		// an execution that already broke the oracle may well poll for ever afterwards (e.g. a stale
		// poll that put the manager back to sleep after the final Wake): report what was seen
		for _, v := range w.viol {
			r.Violate(v.fp, v.what, rep())
		}
		if len(w.viol) == 0 {
			r.HarnessError("C30 %s: execution did not terminate: %+v; events %v", sc, out, w.log)
		}
		return
	}
	// clause persist: nothing is in progress any more
	mem := w.m.GetState()
	if data, err := os.ReadFile(filepath.Join(c30Dir, "sleep_state.json")); err != nil {
		if w.changes > 0 {
			w.violate("C30/persisted-state-missing", "state changed %d times but no state file exists: %v", w.changes, err)
		}
	} else {
		var ps PersistedState
		if err := json.Unmarshal(data, &ps); err != nil {
			w.violate("C30/persisted-state-undecodable", "state file does not decode: %v (%q)", err, data)
		} else if ps.State != mem {
			w.violate(fmt.Sprintf("C30/persisted-state-differs/file-%s-memory-%s", ps.State, mem), "after the execution ended the state file says %s, the manager is %s", ps.State, mem)
		}
	}
	if mem != StateAwake && len(w.viol) == 0 {
		r.HarnessError("C30 %s: execution ended in state %s; events %v", sc, mem, w.log)
	}
	for _, v := range w.viol {
		r.Violate(v.fp, v.what, rep())
	}
	key := sc.String() + "|" + strings.Join(w.log, " ")
	r.Outcome(key)
	if w.stalePoll {
		r.Nontrivial(key)
	}
	r.Add("state_changes_observed", int64(w.changes))
}

func c30Scenarios(r *vmc.Result) []c30Scenario {
	S, W := "sleep", "wake"
	base := []c30Scenario{
		{Pre: []string{S}, Threads: [][]string{{W}}},
		{Pre: []string{S}, Threads: [][]string{{W, S}}},
		{Pre: nil, Threads: [][]string{{S}, {W}}},
		{Pre: []string{S}, Threads: [][]string{{W}, {S}}},
		{Pre: nil, Threads: [][]string{{S}, {W}, {S}}},
		{Pre: []string{S}, Threads: [][]string{{W}, {W}}},
		{Pre: []string{S}, Threads: [][]string{{W, S, W}}},
	}
	if r.Thorough() {
		base = append(base,
			c30Scenario{Pre: []string{S}, Threads: [][]string{{W, S}, {W}}},
			c30Scenario{Pre: []string{S}, Threads: [][]string{{W, S}, {S}}},
			c30Scenario{Pre: nil, Threads: [][]string{{S, W}, {S, W}}},
			c30Scenario{Pre: []string{S}, Threads: [][]string{{W}, {S}, {W}}},
		)
	}
	var out []c30Scenario
	for _, mode := range vmc.Pick(r, []string{"plain", "wake"}, []string{"plain", "getstate", "wake"}) {
		for _, b := range base {
			b.OnPoll = mode
			out = append(out, b)
		}
	}
	// directed shapes: the Wake arrives while a poll is inside OnPoll / OnPollEnd (the gate needs the
	// callback to be reached, so not with the OnPoll mode that wakes by itself)
	WP, WE := "wake@poll", "wake@pollend"
	gated := []c30Scenario{
		{Pre: []string{S}, Threads: [][]string{{WE}}},
		{Pre: []string{S}, Threads: [][]string{{WE, S}}},
		{Pre: []string{S}, Threads: [][]string{{WP}}},
		{Pre: []string{S}, Threads: [][]string{{WP, S}}},
		{Pre: []string{S}, Threads: [][]string{{WE}, {S}}},
	}
	if r.Thorough() {
		gated = append(gated,
			c30Scenario{Pre: []string{S}, Threads: [][]string{{WE}, {WP}}},
			c30Scenario{Pre: []string{S}, Threads: [][]string{{WE, S, W}}},
		)
	}
	for _, mode := range vmc.Pick(r, []string{"plain"}, []string{"plain", "getstate"}) {
		for _, g := range gated {
			g.OnPoll = mode
			out = append(out, g)
		}
	}
	return out
}

func TestVerif_C30(t *testing.T) {
	r := vmc.New("C30", "model_checking")
	r.Rule = "per scenario (sequential prefix x 1-3 threads of Sleep/Wake calls x OnPoll behaviour {plain, reads state, re-enters Wake}) all interleavings of the threads, the poll timer and the in-poll duration timer over the real rewritten sleep.Manager (statement granularity inside Poll) up to the deviation bound (preemptions + early timer firings), final Wake by main; non-trivial = executions in which a Wake returned while a Poll was in progress (distinct by event log); outcomes = distinct event logs. Restart part: every sequential history over {sleep, wake, poll = one poll window of virtual time, restart = Stop + new Manager + Start, reload = Stop + new Manager + LoadState} up to the length bound on one state file, then Stop and one more resume; non-trivial = histories in which the state changed in a lifetime that began by resuming SLEEPING"
	r.Assume("scheduling points at every mutex/atomic/select/channel/timer/spawn operation of internal/sleep/sleep.go and before every statement of Manager.Poll; callbacks are harness recorders (the agent's enterSleep/exitSleep/doPoll are not run); the state file is real (scratch directory); PollIntervalJitter 0; restart part: a process restart is Stop() followed by a new Manager on the same directory (no crash in the middle of an operation), histories are sequential")
	// the state file is written thousands of times per second: prefer a memory-backed scratch directory
	base := ""
	if fi, err := os.Stat("/dev/shm"); err == nil && fi.IsDir() {
		base = "/dev/shm"
	}
	dir, err := os.MkdirTemp(base, "c30-")
	if err != nil {
		dir, err = os.MkdirTemp("", "c30-")
	}
	if err != nil {
		t.Fatal(err)
	}
	defer os.RemoveAll(dir)
	c30Dir = dir
	var rp c30Scenario
	if r.ReplayInto(&rp) {
		if len(rp.History) > 0 {
			w, out := c30rRun(rp.History, vmc.NewReplayChooser(rp.Choices))
			c30rCheck(r, w, out, rp.Choices)
		} else {
			w, out := c30Run(rp, vmc.NewReplayChooser(rp.Choices))
			c30Check(r, rp, w, out, rp.Choices)
		}
		r.Add("states", 1)
		r.Add("transitions", 1)
		if err := r.Finish(); err != nil {
			t.Fatal(err)
		}
		return
	}
	// deviation bound: 2; thorough: 3 for the shapes with at most two threads and two calls
	boundFor := func(sc c30Scenario) int {
		ops := 0
		for _, t := range sc.Threads {
			ops += len(t)
		}
		if r.Thorough() && len(sc.Threads) <= 2 && ops <= 2 {
			return 3
		}
		return 2
	}
	r.Info["deviation_bound"] = map[string]int{"small_shapes": boundFor(c30Scenario{}), "other_shapes": 2}
	// restart part first (seconds): sequential histories over {sleep, wake, poll, restart, reload}
	c30RestartPart(r)
	completed := 0
	// every shard runs every scenario; vmc.Explore deals the second-level subtrees of each DFS
	// over the shards (balanced, and the counts stay exact)
	for idx, sc := range c30Scenarios(r) {
		if r.Expired() {
			break
		}
		sc := sc
		w1, _ := c30Run(sc, &vmc.Chooser{})
		w2, _ := c30Run(sc, &vmc.Chooser{})
		if fmt.Sprint(w1.log) != fmt.Sprint(w2.log) {
			r.HarnessError("C30 nondeterministic default schedule for %s: %v vs %v", sc, w1.log, w2.log)
		}
		st := vmc.Explore(r, func(c *vmc.Chooser) {
			w, out := c30Run(sc, c)
			c30Check(r, sc, w, out, c.Choices())
		}, vmc.DFSOpts{Bound: boundFor(sc)})
		r.Add("evaluations", st.Executions)
		r.Add("states", st.Executions)
		r.Add("transitions", st.Points)
		r.Add("traces_validated_against_impl", st.Executions)
		r.SetMax("max_points_per_execution", int64(st.MaxPoints))
		if st.Complete && r.Shard == 0 {
			completed++
		}
		if idx < 3 && r.Shard == 0 {
			r.Sample(map[string]any{"scenario": sc.String(), "executions": st.Executions, "default_schedule_events": w1.log})
		}
	}
	r.Add("scenarios_completed", int64(completed))
	if err := r.Finish(); err != nil {
		t.Fatal(err)
	}
}
