//go:build verif && !verifrace

package sleep

// C30, restart part -- the persisted state over histories that span process restarts.
//
// harness_test.go explores interleavings inside ONE Manager lifetime that starts awake with no
// state file. What the manager knows about its own state file is then always what it wrote itself.
// This part adds the dimension "the file was written by an earlier lifetime": sequential histories
// (one controlled execution each, virtual time, the same real state file in the scratch directory)
// over the alphabet
//   sleep    Manager.Sleep()
//   wake     Manager.Wake()
//   poll     one poll interval + poll duration + 5 s of virtual time passes (main blocks on a virtual
//            timer, so the poll timer armed by the code and the in-poll duration timer fire on their
//            own and a whole poll cycle fits; nothing is armed while awake or after a bare LoadState)
//   restart  Stop(); a NEW Manager on the same directory; Start()        (the Manager's own resume path)
//   reload   Stop(); a NEW Manager on the same directory; LoadState()    (the way agent.Start resumes)
// all sequences up to the length bound, each followed by Stop() and one more resume by a new Manager.
//
// Oracle (statement clauses; every operation has completed when it is judged):
//   refuse  : Sleep()==nil iff it moved AWAKE->SLEEPING, ErrAlreadySleeping iff the state was not AWAKE
//             and stayed; Wake()==nil iff it moved SLEEPING->AWAKE, ErrNotSleeping iff AWAKE and stayed.
//   edge    : state changes seen at scheduling points inside one lifetime follow the documented edges;
//             poll callbacks only by a thread that stored POLLING.
//   persist : after every completed operation (also Stop) the persisted state -- what the state file
//             decodes to; no file = AWAKE, which is what a manager without a file is -- equals the
//             in-memory state that operation established.
//   resume  : a new Manager that resumes from the directory (Start or LoadState) is in exactly the last
//             established state (this is the persist clause read through the code's own reader).
// Whether a poll cycle happens during `poll` is not demanded (the statement allows the edges, it does
// not require them); it is recorded, and the part is a harness error if no history ever polled.

import (
	"encoding/json"
	"errors"
	"fmt"
	"os"
	"path/filepath"
	"strings"
	"time"

	"github.com/postalsys/muti-metroo/internal/config"
	"github.com/postalsys/muti-metroo/internal/vmc"
	"github.com/postalsys/muti-metroo/internal/vmc/sched"
	"github.com/postalsys/muti-metroo/internal/vmc/vtime"
)

const (
	c30rPollInterval = 60 * time.Second
	c30rPollDuration = 5 * time.Second
	c30rPollWindow   = c30rPollInterval + c30rPollDuration + 5*time.Second
)

var c30rAlphabet = []string{"sleep", "wake", "poll", "restart", "reload"}

type c30rWorld struct {
	hist          []string
	m             *Manager
	gen           int   // lifetime number
	est           State // last established in-memory state
	last          State // observer: last seen state of the current manager
	quiet         bool  // observer suspended (a new manager is being brought up)
	pollers       map[int]bool
	onPoll        int // callbacks begun, all lifetimes
	onPollEnd     int
	cycles        int  // poll operations during which a whole poll cycle ran
	resumedAsleep bool // the current lifetime began by resuming SLEEPING
	collided      bool // a transition completed in a lifetime that began by resuming SLEEPING
	changes       int
	log           []string
	viol          []c30Viol
	herr          []string
}

func (w *c30rWorld) ev(format string, a ...any) { w.log = append(w.log, fmt.Sprintf(format, a...)) }

func (w *c30rWorld) name() string { return "history=[" + strings.Join(w.hist, ",") + "]" }

func (w *c30rWorld) violate(fp, format string, a ...any) {
	w.viol = append(w.viol, c30Viol{fp, w.name() + ": " + fmt.Sprintf(format, a...) + fmt.Sprintf("; events %v", w.log)})
}

func (w *c30rWorld) observe() {
	if w.quiet || w.m == nil {
		return
	}
	st, _ := w.m.state.Peek().(State)
	if st == w.last {
		return
	}
	from := w.last
	w.last = st
	w.changes++
	w.ev("%s->%s", from, st)
	if !c30Allowed(from, st) {
		w.violate(fmt.Sprintf("C30/bad-transition/%s->%s", from, st), "state changed %s -> %s", from, st)
	}
	if st == StatePolling {
		w.pollers[sched.ThreadID()] = true
	}
	if w.resumedAsleep {
		w.collided = true
	}
}

func (w *c30rWorld) newManager() *Manager {
	cfg := config.SleepConfig{Enabled: true, PollInterval: c30rPollInterval, PollIntervalJitter: 0, PollDuration: c30rPollDuration, PersistState: true}
	m := NewManager(cfg, c30Dir, nil)
	w.gen++
	gen := w.gen
	cb := func(name string, n *int) func() error {
		return func() error {
			*n++
			w.ev("%s#%d", name, gen)
			if gen == w.gen && !w.pollers[sched.ThreadID()] {
				w.violate("C30/poll-callback-without-polling/"+name, "%s invoked by a thread that never stored POLLING", name)
			}
			return nil
		}
	}
	m.SetCallbacks(Callbacks{
		OnSleep:   func() error { w.ev("OnSleep#%d", gen); return nil },
		OnWake:    func() error { w.ev("OnWake#%d", gen); return nil },
		OnPoll:    cb("OnPoll", &w.onPoll),
		OnPollEnd: cb("OnPollEnd", &w.onPollEnd),
	})
	return m
}

// persisted is what the directory says: the decoded state file; no file = AWAKE.
func (w *c30rWorld) persisted() (State, string, bool) {
	data, err := os.ReadFile(filepath.Join(c30Dir, "sleep_state.json"))
	if err != nil {
		if os.IsNotExist(err) {
			return StateAwake, "no-file", true
		}
		w.herr = append(w.herr, fmt.Sprintf("%s: reading the state file: %v", w.name(), err))
		return 0, "", false
	}
	var ps PersistedState
	if err := json.Unmarshal(data, &ps); err != nil {
		w.violate("C30/persisted-state-undecodable", "state file does not decode: %v (%q)", err, data)
		return 0, "", false
	}
	return ps.State, "file-" + ps.State.String(), true
}

// settle judges the persist clause after a completed operation.
func (w *c30rWorld) settle(after string) {
	mem := w.m.GetState()
	if mem == StatePolling {
		w.herr = append(w.herr, fmt.Sprintf("%s: a poll is still in progress after %s (the poll window no longer holds a whole cycle); events %v", w.name(), after, w.log))
		return
	}
	if ps, label, ok := w.persisted(); ok && ps != mem {
		w.violate(fmt.Sprintf("C30/persisted-state-differs/%s-memory-%s", label, mem), "after %s completed (lifetime %d) the persisted state is %s (%s), the manager is %s", after, w.gen, ps, label, mem)
	}
	w.est = mem
}

// resume brings up a new Manager on the same directory and judges the resume clause.
func (w *c30rWorld) resume(how string) {
	w.quiet = true
	m := w.newManager()
	var err error
	if how == "restart" {
		err = m.Start()
	} else {
		err = m.LoadState()
		if err != nil && errors.Is(err, os.ErrNotExist) {
			err = nil // nothing persisted yet: a manager without a state file is awake
		}
	}
	got := m.GetState()
	w.ev("%s#%d=%s", how, w.gen, got)
	if err != nil {
		w.violate("C30/resume-failed/"+how, "%s of lifetime %d returned %v", how, w.gen, err)
	}
	if got != w.est {
		w.violate(fmt.Sprintf("C30/resumed-state-differs/resumed-%s-established-%s", got, w.est), "lifetime %d came up %s via %s, the last established state was %s", w.gen, got, how, w.est)
	}
	w.m = m
	w.last = got
	w.pollers = map[int]bool{}
	w.resumedAsleep = got != StateAwake
	w.quiet = false
}

func (w *c30rWorld) op(op string) {
	switch op {
	case "sleep", "wake":
		before := w.m.GetState()
		var err error
		if op == "sleep" {
			err = w.m.Sleep()
		} else {
			err = w.m.Wake()
		}
		after := w.m.GetState()
		w.ev("%s()=%v", op, err)
		switch {
		case op == "sleep" && err == nil:
			if before != StateAwake || after != StateSleeping {
				w.violate("C30/sleep-accepted-without-transition", "Sleep() returned nil, state %s -> %s", before, after)
			}
		case op == "sleep" && errors.Is(err, ErrAlreadySleeping):
			if before == StateAwake {
				w.violate("C30/sleep-refused-while-awake", "Sleep() returned ErrAlreadySleeping in state AWAKE")
			}
			if after != before {
				w.violate("C30/refused-call-changed-state/sleep", "refused Sleep() changed the state %s -> %s", before, after)
			}
		case op == "wake" && err == nil:
			if before == StateAwake || after != StateAwake {
				w.violate("C30/wake-accepted-without-transition", "Wake() returned nil, state %s -> %s", before, after)
			}
		case op == "wake" && errors.Is(err, ErrNotSleeping):
			if before != StateAwake {
				w.violate("C30/wake-refused-while-asleep", "Wake() returned ErrNotSleeping in state %s", before)
			}
			if after != before {
				w.violate("C30/refused-call-changed-state/wake", "refused Wake() changed the state %s -> %s", before, after)
			}
		default:
			w.violate("C30/unexpected-error/"+op, "%s() returned %v", op, err)
		}
		w.settle(op)
	case "poll":
		p0, e0 := w.onPoll, w.onPollEnd
		vtime.Sleep(c30rPollWindow)
		w.m.GetStatus() // a poll's completion half runs under stateMu: wait for it
		if w.onPoll == p0+1 && w.onPollEnd == e0+1 {
			w.cycles++
		}
		w.ev("poll:%d/%d", w.onPoll-p0, w.onPollEnd-e0)
		w.settle("poll")
	case "restart", "reload":
		w.m.Stop()
		w.ev("Stop#%d", w.gen)
		w.settle("Stop")
		w.resume(op)
		w.settle(op)
	}
}

func c30rRun(hist []string, c *vmc.Chooser) (*c30rWorld, sched.Outcome) {
	os.Remove(filepath.Join(c30Dir, "sleep_state.json"))
	os.Remove(filepath.Join(c30Dir, "sleep_state.json.tmp"))
	w := &c30rWorld{hist: hist, est: StateAwake, last: StateAwake, pollers: map[int]bool{}}
	sched.Observer = w.observe
	defer func() { sched.Observer = nil }()
	out := sched.Run(c, sched.Opts{MaxSteps: 6000}, func() {
		w.quiet = true
		w.m = w.newManager() // first lifetime: no state file, awake, not started (as in harness_test.go)
		w.quiet = false
		for _, op := range hist {
			w.op(op)
		}
		// the process ends; what the next one would resume
		w.m.Stop()
		w.ev("Stop#%d", w.gen)
		w.settle("Stop")
		w.resume("reload")
	})
	return w, out
}

func c30rCheck(r *vmc.Result, w *c30rWorld, out sched.Outcome, choices []int) {
	rep := c30Scenario{History: w.hist, Choices: choices}
	if out.Panic != nil {
		r.HarnessError("C30 %s: panic %v\n%s", w.name(), out.Panic, out.PanicStack)
		return
	}
	for _, v := range w.viol {
		r.Violate(v.fp, v.what, rep)
	}
	if out.Deadlock || out.Horizon {
		if len(w.viol) == 0 {
			r.HarnessError("C30 %s: execution did not terminate: %+v; events %v", w.name(), out, w.log)
		}
		return
	}
	if len(w.viol) == 0 {
		for _, h := range w.herr {
			r.HarnessError("C30 %s", h)
		}
	}
	key := w.name() + "|" + strings.Join(w.log, " ")
	r.Outcome(key)
	if w.collided {
		r.Nontrivial(key)
		r.Add("restart_histories_with_transition_after_resumed_sleep", 1)
	}
	r.Add("restart_poll_cycles", int64(w.cycles))
	c30rCycles += int64(w.cycles)
	r.Add("state_changes_observed", int64(w.changes))
}

var c30rCycles int64

// c30rExplore runs one history: the default schedule plus every alternative of the zero-cost
// choice points (none are expected in a sequential history; explored if they appear).
func c30rExplore(r *vmc.Result, hist []string) (execs, points int64) {
	stack := [][]int{nil}
	for len(stack) > 0 {
		prefix := stack[len(stack)-1]
		stack = stack[:len(stack)-1]
		c := vmc.NewReplayChooser(prefix)
		w, out := c30rRun(hist, c)
		c30rCheck(r, w, out, c.Choices())
		execs++
		points += int64(len(c.Trace))
		for i := len(prefix); i < len(c.Trace); i++ {
			if p := c.Trace[i]; p.N > 1 && p.Cost == 0 {
				for alt := 1; alt < p.N; alt++ {
					np := append(append([]int{}, c.Choices()[:i]...), alt)
					stack = append(stack, np)
				}
			}
		}
	}
	return
}

// c30RestartPart enumerates every history up to the length bound (shortest first, alphabet order).
func c30RestartPart(r *vmc.Result) {
	maxLen := vmc.Pick(r, 5, 7)
	r.Info["restart_history_max_len"] = maxLen
	r.Info["restart_history_alphabet"] = c30rAlphabet
	idx := 0
	var total, execs, points int64
	complete := true
	for n := 1; n <= maxLen && complete; n++ {
		hist := make([]int, n)
		for {
			if idx%r.Shards == r.Shard {
				if idx%64 == 0 && r.Expired() {
					complete = false
					break
				}
				h := make([]string, n)
				for i, a := range hist {
					h[i] = c30rAlphabet[a]
				}
				e, p := c30rExplore(r, h)
				total++
				execs += e
				points += p
			}
			idx++
			i := n - 1
			for i >= 0 {
				hist[i]++
				if hist[i] < len(c30rAlphabet) {
					break
				}
				hist[i] = 0
				i--
			}
			if i < 0 {
				break
			}
		}
	}
	r.Add("restart_histories", total)
	r.Add("evaluations", execs)
	r.Add("states", execs)
	r.Add("transitions", points)
	r.Add("traces_validated_against_impl", execs)
	if complete && r.Shard == 0 {
		r.Add("restart_part_completed", 1)
	}
	if complete && total > 100 && c30rCycles == 0 {
		r.HarnessError("C30 restart part: no history contained a complete poll cycle (vacuous poll operations)")
	}
}
