//go:build verif && verifrace

package sleep

import (
	"sync"
	"testing"
	"time"

	"github.com/postalsys/muti-metroo/internal/config"
)

// TestVerifRace_C30 is the free-running body for the separate -race pass (un-rewritten sources).
func TestVerifRace_C30(t *testing.T) {
	dir := t.TempDir()
	for it := 0; it < 20; it++ {
		cfg := config.SleepConfig{Enabled: true, PollInterval: 300 * time.Microsecond, PollDuration: 200 * time.Microsecond, PersistState: true}
		m := NewManager(cfg, dir, nil)
		m.SetCallbacks(Callbacks{OnPoll: func() error { m.GetState(); return nil }, OnPollEnd: func() error { return nil }})
		var wg sync.WaitGroup
		for g := 0; g < 3; g++ {
			g := g
			wg.Add(1)
			go func() {
				defer wg.Done()
				for j := 0; j < 30; j++ {
					if (j+g)%2 == 0 {
						m.Sleep()
					} else {
						m.Wake()
					}
					m.GetStatus()
					time.Sleep(100 * time.Microsecond)
				}
			}()
		}
		wg.Wait()
		m.Wake()
		m.Stop()
	}
}
