//go:build verif

package crypto

// C03, schedule part -- tunnel ends derive the same key WHEN SEVERAL TUNNELS ARE OPENED AT THE SAME TIME.
//
// Every tunnel kind derives its key with the same two package functions, on both ends:
// ComputeECDH(own private, remote public) and DeriveSessionKey(shared, request id, initiator public,
// responder public, role). They are not called from one goroutine: every exit-side open runs in its
// own goroutine (exit / forward handleStreamOpenAsync, parallel frame dispatch for UDP, ICMP, shell
// and file-transfer opens) and every Dial / DialForward / UploadFile / OpenShellStream ... derives in
// its caller's goroutine. The grids of the other two files open one tunnel after the other; here
// 2-4 derivations of DIFFERENT tunnels (and of the two ends of one tunnel) overlap in one process.
//
// internal/crypto/crypto.go is rewritten at every check so that every statement of ComputeECDH and
// DeriveSessionKey is a scheduling point of the controlled scheduler (check.json "rewrite",
// step_funcs); the explorer enumerates every interleaving of the threads within the preemption
// bound. One thread = one end of one tunnel running exactly what the handlers run.
//
// Oracle (the statement, per execution):
//   * every end's key equals the key a sequential derivation (the same real functions, run alone
//     before the execution) gives for ITS OWN request id and keys  (key-not-bound-to-own-inputs);
//   * where both ends of a tunnel are among the threads they hold the same key, and a message sealed
//     by either opens at the other                                  (ends-differ);
//   * ends of different tunnels (request id or an ephemeral key differs) hold different keys
//                                                                    (key-shared-between-tunnels).
// A deadlock, horizon or panic of an execution is a harness error, never a verdict.

import (
	"fmt"
	"strings"
	"testing"

	"github.com/postalsys/muti-metroo/internal/vmc"
	"github.com/postalsys/muti-metroo/internal/vmc/sched"
)

type c03dEnd struct {
	Tunnel int    `json:"tunnel"`
	Role   string `json:"role"` // initiator | responder
}

type c03dScenario struct {
	Name   string    `json:"name"`
	Inputs string    `json:"inputs"` // both | reqid-only | keys-only : in what the tunnels differ
	Ends   []c03dEnd `json:"ends"`
	Bound  int       `json:"preemption_bound"`
}

type c03dReplay struct {
	Sched    bool         `json:"sched"`
	Scenario c03dScenario `json:"scenario"`
	Choices  []int        `json:"choices"`
}

type c03dTunnel struct {
	req         uint64
	ipriv, ipub [KeySize]byte
	rpriv, rpub [KeySize]byte
	refKey      [KeySize]byte // sequential reference (both roles agree, checked when built)
}

// c03dPriv: a deterministic private scalar (the functions clamp it themselves).
func c03dPriv(seed int) (k [KeySize]byte) {
	for i := range k {
		k[i] = byte(seed*37 + i*11 + 5)
	}
	return
}

// c03dPub: X25519(private, base point) through the package's own ECDH.
func c03dPub(priv [KeySize]byte) [KeySize]byte {
	var base [KeySize]byte
	base[0] = 9
	p, err := ComputeECDH(priv, base)
	if err != nil {
		panic(err)
	}
	return p
}

// c03dDerive is what one end of a tunnel runs (the same two calls, the same argument order, as
// the handlers): initiator = ingress side, responder = exit side.
func c03dDerive(t *c03dTunnel, role string) (*SessionKey, error) {
	if role == "initiator" {
		shared, err := ComputeECDH(t.ipriv, t.rpub)
		if err != nil {
			return nil, err
		}
		return DeriveSessionKey(shared, t.req, t.ipub, t.rpub, true), nil
	}
	shared, err := ComputeECDH(t.rpriv, t.ipub)
	if err != nil {
		return nil, err
	}
	return DeriveSessionKey(shared, t.req, t.ipub, t.rpub, false), nil
}

// c03dTunnels builds n tunnels that differ in the stated inputs, with their sequential reference keys.
func c03dTunnels(r *vmc.Result, inputs string, n int) []*c03dTunnel {
	ids := []uint64{1, 2, 1<<32 + 1, 1<<63 + 5}
	var ts []*c03dTunnel
	for k := 0; k < n; k++ {
		t := &c03dTunnel{}
		ks, id := k, ids[k]
		switch inputs {
		case "reqid-only": // same ephemeral keys (a stack that reuses them), request ids differ
			ks = 0
		case "keys-only": // same request id (request ids are per ingress; two ingresses may both use 1)
			id = ids[0]
		}
		t.req = id
		t.ipriv, t.rpriv = c03dPriv(2*ks+1), c03dPriv(2*ks+2)
		t.ipub, t.rpub = c03dPub(t.ipriv), c03dPub(t.rpriv)
		ki, err1 := c03dDerive(t, "initiator")
		kr, err2 := c03dDerive(t, "responder")
		if err1 != nil || err2 != nil {
			r.HarnessError("C03 schedule part: sequential reference derivation failed: %v %v", err1, err2)
			return nil
		}
		if ki.Key() != kr.Key() {
			r.Violate("C03/concurrent-derive/sequential-ends-differ", fmt.Sprintf("run alone, one after the other, the two ends of a tunnel (request id %d) derive different keys", t.req), map[string]any{"inputs": inputs, "tunnel": k})
		}
		t.refKey = ki.Key()
		for j, o := range ts {
			if o.refKey == t.refKey {
				r.Violate("C03/concurrent-derive/sequential-key-shared", fmt.Sprintf("run alone, tunnels %d and %d (differing in %s) derive the same key", j, k, inputs), map[string]any{"inputs": inputs})
			}
		}
		ts = append(ts, t)
	}
	return ts
}

type c03dResult struct {
	keys   []*SessionKey
	errs   []error
	events []string // s<i> / f<i>: thread i started / finished its derivation, in execution order
	out    sched.Outcome
}

func c03dRun(sc c03dScenario, ts []*c03dTunnel, c *vmc.Chooser) c03dResult {
	res := c03dResult{keys: make([]*SessionKey, len(sc.Ends)), errs: make([]error, len(sc.Ends))}
	res.out = sched.Run(c, sched.Opts{}, func() {
		for i, e := range sc.Ends {
			i, e := i, e
			sched.GoNamed(fmt.Sprintf("%s%d", e.Role[:1], e.Tunnel), func() {
				res.events = append(res.events, fmt.Sprintf("s%d", i))
				res.keys[i], res.errs[i] = c03dDerive(ts[e.Tunnel], e.Role)
				res.events = append(res.events, fmt.Sprintf("f%d", i))
			})
		}
	})
	return res
}

// c03dOverlapped: some derivation started while another one had started and not finished.
func c03dOverlapped(events []string) bool {
	open := 0
	for _, e := range events {
		if e[0] == 's' {
			if open > 0 {
				return true
			}
			open++
		} else {
			open--
		}
	}
	return false
}

func c03dCheck(r *vmc.Result, sc c03dScenario, ts []*c03dTunnel, res c03dResult, rep func() any) {
	if res.out.Deadlock || res.out.Horizon || res.out.Panic != nil {
		r.HarnessError("C03 schedule part: execution of %s did not finish cleanly: %+v", sc.Name, res.out)
		return
	}
	desc := func(i int) string {
		e := sc.Ends[i]
		return fmt.Sprintf("%s of tunnel %d (request id %d)", e.Role, e.Tunnel, ts[e.Tunnel].req)
	}
	order := strings.Join(res.events, " ")
	keys := make([][KeySize]byte, len(sc.Ends))
	for i := range sc.Ends {
		if res.errs[i] != nil || res.keys[i] == nil {
			r.Violate("C03/concurrent-derive/derivation-failed/"+sc.Ends[i].Role,
				fmt.Sprintf("%s: %s failed (%v) while other tunnels were being opened; thread order %q", sc.Name, desc(i), res.errs[i], order), rep())
			return
		}
		keys[i] = res.keys[i].Key()
	}
	for i, e := range sc.Ends {
		if keys[i] == ts[e.Tunnel].refKey {
			continue
		}
		whose := "a key no tunnel of the scenario derives on its own (inputs of several tunnels mixed)"
		for k, t := range ts {
			if keys[i] == t.refKey {
				whose = fmt.Sprintf("the key of tunnel %d (request id %d)", k, t.req)
			}
		}
		r.Violate("C03/concurrent-derive/key-not-bound-to-own-inputs/"+e.Role,
			fmt.Sprintf("%s (tunnels differ in %s): %s derived %x..., not the key %x... that its own request id and ephemeral keys give when derived alone: it is %s; thread order %q",
				sc.Name, sc.Inputs, desc(i), keys[i][:6], ts[e.Tunnel].refKey[:6], whose, order), rep())
	}
	for i, a := range sc.Ends {
		for j, b := range sc.Ends {
			if j <= i {
				continue
			}
			if a.Tunnel == b.Tunnel && a.Role != b.Role {
				ok := keys[i] == keys[j]
				if ok {
					// a message sealed by either end opens at the other (role-aware nonces)
					for _, p := range [][2]int{{i, j}, {j, i}} {
						ct, err := res.keys[p[0]].Encrypt([]byte("first frame"))
						if err != nil {
							ok = false
							continue
						}
						if pt, err := res.keys[p[1]].Decrypt(ct); err != nil || string(pt) != "first frame" {
							ok = false
						}
					}
				}
				if !ok {
					r.Violate("C03/concurrent-derive/ends-differ",
						fmt.Sprintf("%s (tunnels differ in %s): the two ends of tunnel %d (request id %d), derived while other tunnels were being opened, do not hold the same key (%x... / %x...); thread order %q",
							sc.Name, sc.Inputs, a.Tunnel, ts[a.Tunnel].req, keys[i][:6], keys[j][:6], order), rep())
				}
			}
			if a.Tunnel != b.Tunnel && keys[i] == keys[j] {
				r.Violate("C03/concurrent-derive/key-shared-between-tunnels",
					fmt.Sprintf("%s: %s and %s, which differ in %s, hold the same key %x...; thread order %q", sc.Name, desc(i), desc(j), sc.Inputs, keys[i][:6], order), rep())
			}
		}
	}
	if c03dOverlapped(res.events) {
		r.Nontrivial("derive-sched|" + sc.Name + "|" + sc.Inputs + "|" + order)
	}
	r.Outcome("derive-sched|" + sc.Name + "|" + order)
}

func c03dScenarios(r *vmc.Result) []c03dScenario {
	I := func(t int) c03dEnd { return c03dEnd{t, "initiator"} }
	R := func(t int) c03dEnd { return c03dEnd{t, "responder"} }
	type shape struct {
		name  string
		ends  []c03dEnd
		bound int
	}
	quick := []shape{
		{"two-dials-on-one-ingress", []c03dEnd{I(0), I(1)}, 2},
		{"two-opens-through-one-exit", []c03dEnd{R(0), R(1)}, 2},
		{"ingress-of-one-exit-of-another", []c03dEnd{I(0), R(1)}, 2},
		{"both-ends-of-one-and-an-open-of-another", []c03dEnd{I(0), R(0), R(1)}, 2},
	}
	thorough := []shape{
		{"two-dials-on-one-ingress", []c03dEnd{I(0), I(1)}, 4},
		{"two-opens-through-one-exit", []c03dEnd{R(0), R(1)}, 4},
		{"ingress-of-one-exit-of-another", []c03dEnd{I(0), R(1)}, 4},
		{"both-ends-of-one-and-an-open-of-another", []c03dEnd{I(0), R(0), R(1)}, 3},
		{"three-opens-through-one-exit", []c03dEnd{R(0), R(1), R(2)}, 2},
		{"both-ends-of-two-tunnels", []c03dEnd{I(0), R(0), I(1), R(1)}, 2},
	}
	var out []c03dScenario
	for _, sh := range vmc.Pick(r, quick, thorough) {
		for _, in := range []string{"both", "reqid-only", "keys-only"} {
			out = append(out, c03dScenario{Name: sh.name, Inputs: in, Ends: sh.ends, Bound: sh.bound})
		}
	}
	return out
}

func c03dMaxTunnel(sc c03dScenario) int {
	n := 0
	for _, e := range sc.Ends {
		if e.Tunnel+1 > n {
			n = e.Tunnel + 1
		}
	}
	return n
}

func TestVerif_C03_Derive(t *testing.T) {
	r := vmc.New("C03", "exploration")
	r.Rule = "schedule part: all interleavings (preemption-bounded, every statement of ComputeECDH and DeriveSessionKey a scheduling point) of 2-4 threads, each one end of a tunnel running the handlers' derivation for its own request id and keys, tunnels differing in request id, keys or both; non-trivial = executions in which derivations overlapped, distinct by scenario and thread start/finish order"
	var rp c03dReplay
	if r.ReplayInto(&rp) {
		if rp.Sched {
			ts := c03dTunnels(r, rp.Scenario.Inputs, c03dMaxTunnel(rp.Scenario))
			if ts != nil {
				res := c03dRun(rp.Scenario, ts, vmc.NewReplayChooser(rp.Choices))
				c03dCheck(r, rp.Scenario, ts, res, func() any { return rp })
				r.Add("evaluations", 1)
			}
		}
		// artefacts of the other parts are replayed by TestVerif_C03 (package agent)
		if err := r.Finish(); err != nil {
			t.Fatal(err)
		}
		return
	}
	var execs, points int64
	scs := c03dScenarios(r)
	done := 0
	for _, sc := range scs {
		sc := sc
		ts := c03dTunnels(r, sc.Inputs, c03dMaxTunnel(sc))
		if ts == nil {
			break
		}
		st := vmc.Explore(r, func(c *vmc.Chooser) {
			res := c03dRun(sc, ts, c)
			c03dCheck(r, sc, ts, res, func() any { return c03dReplay{Sched: true, Scenario: sc, Choices: c.Choices()} })
		}, vmc.DFSOpts{Bound: sc.Bound})
		execs += st.Executions
		points += st.Points
		r.SetMax("sched_points_per_execution", int64(st.MaxPoints))
		if st.Complete {
			done++
		}
		if sc.Inputs == "both" {
			r.Sample(map[string]any{"schedule_scenario": sc.Name, "threads": len(sc.Ends), "preemption_bound": sc.Bound, "executions": st.Executions, "max_points": st.MaxPoints})
		}
		if !st.Complete {
			break
		}
	}
	r.Add("evaluations", execs)
	r.Add("sched_executions", execs)
	r.Add("sched_scheduling_points", points)
	r.Add("sched_scenarios", int64(len(scs)))
	r.Add("sched_scenarios_completed", int64(done))
	if err := r.Finish(); err != nil {
		t.Fatal(err)
	}
}
