//go:build verif

package agent

// C03, second half -- the INITIATORS that the first half does not reach, and the ICMP RESPONDER.
//
// Initiators (real code on node 0, an event-level mesh of real agents, a SCRIPTED far end that
// consumes the inbound queues of the last node and answers with the real encoders and the real
// crypto package, exactly as an honest exit derives: ECDH(own private, initiator public),
// DeriveSessionKey(shared, request id of the OPEN, initiator public, own public, responder role)):
//
//	upload            Agent.UploadFile
//	download          Agent.DownloadFile
//	download-stream   Agent.DownloadFileStream
//	shell-stream      Agent.OpenShellStream(interactive=false)
//	shell-interactive Agent.OpenShellStream(interactive=true)
//	icmp-ws           Agent.OpenICMPSession   (HTTP/WebSocket ping API)
//	icmp-socks        Agent.CreateICMPSession (+ RelayICMPEcho) (SOCKS5)
//
// For each kind x {0,1 (thorough: 0,1,2) real transits between the initiator and the far end}:
//
//	honest      two tunnels one after the other in the same world. Per tunnel: the first sealed
//	            frame the initiator emits (file/shell metadata, echo body) opens under the key the
//	            responder holds, both with the AEAD directly (key bytes) and with the responder's
//	            SessionKey.Decrypt (role); the key read from private state (shell adapter, ICMP
//	            session) equals the responder's; data sealed by the responder is accepted by the
//	            initiator (remote error text surfaced / file written / shell bytes / echo reply).
//	            The two tunnels, and all tunnels of the run, have pairwise different keys.
//	bitflip     the ACK carries the responder's public key with one bit changed (quick: 8 bit
//	            positions, thorough: all 256): nothing the initiator emits opens under the key the
//	            responder holds, its stored key differs, responder-sealed data is not accepted.
//	reqid       the ACK echoes a different request id (STREAM_OPEN_ACK and ICMP_OPEN_ACK both carry
//	            one): same oracle; an initiator that ignores the ACK is driven to return by
//	            cancelling its context once the mesh is quiescent.
//	degenerate  the ACK carries each of the 14 all-zero / low-order public keys: the initiator must
//	            return an error, emit no data frame after the ACK, hold no session key.
//
// ICMP responder (exit side, internal/icmp Handler.HandleICMPOpen): the handler opens its ICMP socket
// eagerly (NewSocket -> icmp.ListenPacket("udp4")), which the sandbox refuses (ping_group_range
// "1 0"). internal/icmp/socket.go is therefore mechanically rewritten at every check
// (icmp.ListenPacket / icmp.PacketConn -> the loopback fake in vicmp.go); handler.go, session.go and
// the rest of socket.go are the unchanged sources. A scripted initiator opens sessions for request
// ids x fresh keys: the key it derives AS THE REAL INGRESS DOES (with the request id echoed in the
// ACK) equals the key stored in the exit's session; an echo body sealed by the initiator reaches the
// fake socket as the plaintext; the reply sealed by the exit opens at the initiator. Every degenerate
// public key in ICMP_OPEN: no session key installed. End to end: the real ingress (both APIs) against
// the real exit handler, keys compared directly, echo round trip.

import (
	"bytes"
	"context"
	"fmt"
	"net"
	"os"
	"path/filepath"
	"strings"
	"sync"

	"golang.org/x/crypto/chacha20poly1305"

	"github.com/postalsys/muti-metroo/internal/config"
	"github.com/postalsys/muti-metroo/internal/crypto"
	"github.com/postalsys/muti-metroo/internal/filetransfer"
	"github.com/postalsys/muti-metroo/internal/health"
	"github.com/postalsys/muti-metroo/internal/icmp/vicmp"
	"github.com/postalsys/muti-metroo/internal/protocol"
	"github.com/postalsys/muti-metroo/internal/shell"
	"github.com/postalsys/muti-metroo/internal/vmc"
	"github.com/postalsys/muti-metroo/internal/vmc/vnet"
)

type c03xCase struct {
	Ext      bool   `json:"ext"` // marks a replay artefact of this half
	Kind     string `json:"kind"`
	Mode     string `json:"mode"` // honest | bitflip | reqid | degenerate
	Transits int    `json:"transits"`
	Bit      int    `json:"bit,omitempty"`
	EchoXor  uint64 `json:"echo_xor,omitempty"` // reqid: XORed into the request id the ACK echoes
	Key      string `json:"remote_key,omitempty"`
	ReqID    uint64 `json:"req_id,omitempty"` // icmp-responder
}

const (
	c03xEcho  = "C03-SEALED-BY-THE-RESPONDER"
	c03xProbe = "C03-PROBE-PAYLOAD"
)

func c03xBuild(transits int, icmpExit bool) (*nsNet, error) {
	vnet.Reset()
	vicmp.Reset()
	n := 2 + transits
	nt, err := nsNew(n, func(i int, cfg *config.Config) {
		if i == n-1 {
			cfg.Exit.Enabled = true
			cfg.Exit.Routes = []string{"0.0.0.0/0"}
			cfg.ICMP.Enabled = icmpExit
		}
	})
	if err != nil {
		return nil, err
	}
	for i := 0; i+1 < n; i++ {
		nt.connect(i, i+1)
	}
	for i := 0; i < n; i++ {
		nt.agents[i].flooder.AnnounceLocalRoutes()
	}
	nt.run(nil, 100000)
	// make the request ids of node 0 differ from its per-connection stream ids (both would start at 1)
	for i := 0; i < 3; i++ {
		nt.agents[0].streamMgr.NextRequestID()
	}
	return nt, nil
}

func c03xRawOpen(key [32]byte, sealed []byte) ([]byte, bool) {
	if len(sealed) < 28 {
		return nil, false
	}
	aead, err := chacha20poly1305.New(key[:])
	if err != nil {
		return nil, false
	}
	pt, err := aead.Open(nil, sealed[:12], sealed[12:], nil)
	return pt, err == nil
}

// ---- scripted far end ----------------------------------------------------------------------

type c03xTunnel struct {
	from     int
	streamID uint64
	reqID    uint64
	initPub  [32]byte
	addr     string // domain address of a STREAM_OPEN ("" for ICMP)
	rpub     [32]byte
	sk       *crypto.SessionKey // the key an honest responder holds for this OPEN
	key      [32]byte
	acked    bool
	data     [][]byte // sealed bodies emitted by the initiator after the ACK, in order
	fin      bool
	closed   bool
}

type c03xFar struct {
	nt      *nsNet
	node    int
	cs      c03xCase
	tunnels []*c03xTunnel
	by      map[[2]uint64]*c03xTunnel
}

func (x *c03xFar) send(to int, f *protocol.Frame) {
	b, err := f.Encode()
	if err != nil {
		panic(err)
	}
	x.nt.logSent(x.node, to, b)
	if _, err := x.nt.inject(x.node, to, b); err != nil {
		panic(err)
	}
}

func (x *c03xFar) open(from int, streamID, reqID uint64, initPub [32]byte, addr string) *c03xTunnel {
	t := &c03xTunnel{from: from, streamID: streamID, reqID: reqID, initPub: initPub, addr: addr}
	rpriv, rpub, err := crypto.GenerateEphemeralKeypair()
	if err != nil {
		panic(err)
	}
	t.rpub = rpub
	if shared, err := crypto.ComputeECDH(rpriv, initPub); err == nil {
		t.sk = crypto.DeriveSessionKey(shared, reqID, initPub, rpub, false)
		t.key = t.sk.Key()
	}
	x.tunnels = append(x.tunnels, t)
	x.by[[2]uint64{uint64(from), streamID}] = t
	return t
}

// ack returns what the ACK carries: the honest values, or the tampered ones of the case.
func (x *c03xFar) ack(t *c03xTunnel) (uint64, [32]byte) {
	id, k := t.reqID, t.rpub
	switch x.cs.Mode {
	case "bitflip":
		k[x.cs.Bit/8] ^= 1 << (x.cs.Bit % 8)
	case "reqid":
		id ^= x.cs.EchoXor
	case "degenerate":
		k = c03Hex(x.cs.Key)
	}
	return id, k
}

func (x *c03xFar) seal(t *c03xTunnel, plain []byte) []byte {
	ct, err := t.sk.Encrypt(plain)
	if err != nil {
		panic(err)
	}
	return ct
}

func (x *c03xFar) handle(from int, b []byte) {
	f, err := protocol.Decode(b)
	if err != nil {
		return
	}
	switch f.Type {
	case protocol.FrameStreamOpen:
		o, err := protocol.DecodeStreamOpen(f.Payload)
		if err != nil {
			return
		}
		addr := ""
		if o.AddressType == protocol.AddrTypeDomain && len(o.Address) > 1 {
			addr = string(o.Address[1:])
		}
		t := x.open(from, f.StreamID, o.RequestID, o.EphemeralPubKey, addr)
		id, k := x.ack(t)
		a := &protocol.StreamOpenAck{RequestID: id, BoundAddrType: protocol.AddrTypeIPv4, BoundAddr: []byte{10, 0, 0, 9}, BoundPort: 9, EphemeralPubKey: k}
		t.acked = true
		x.send(from, &protocol.Frame{Type: protocol.FrameStreamOpenAck, StreamID: f.StreamID, Payload: a.Encode()})
	case protocol.FrameStreamData:
		t := x.by[[2]uint64{uint64(from), f.StreamID}]
		if t == nil {
			return
		}
		first := false
		if len(f.Payload) > 0 {
			t.data = append(t.data, append([]byte(nil), f.Payload...))
			first = len(t.data) == 1
		}
		if f.Flags&protocol.FlagFinWrite != 0 {
			t.fin = true
		}
		data := func(plain []byte, flags uint8) {
			x.send(from, &protocol.Frame{Type: protocol.FrameStreamData, StreamID: f.StreamID, Flags: flags, Payload: x.seal(t, plain)})
		}
		if first && t.sk != nil && x.cs.Mode != "degenerate" {
			// what an honest responder sends back, sealed under ITS key
			switch {
			case t.addr == protocol.FileTransferUpload, t.addr == protocol.FileTransferDownload && x.cs.Kind == "download-stream":
				m, _ := filetransfer.EncodeMetadata(&filetransfer.TransferMetadata{Error: c03xEcho})
				data(m, 0)
			case t.addr == protocol.FileTransferDownload:
				m, _ := filetransfer.EncodeMetadata(&filetransfer.TransferMetadata{Path: "c03", Mode: 0o600, Size: int64(len(c03xEcho)), Compress: false})
				data(m, 0)
				data([]byte(c03xEcho), protocol.FlagFinWrite)
			case t.addr == protocol.ShellStream, t.addr == protocol.ShellInteractive:
				data([]byte(c03xEcho), 0)
			}
		}
		// let an initiator that went on regardless finish instead of waiting for its timeouts
		if first && x.cs.Mode == "degenerate" && t.addr == protocol.FileTransferDownload {
			x.send(from, &protocol.Frame{Type: protocol.FrameStreamClose, StreamID: f.StreamID})
		}
		if t.fin && !t.closed && t.addr == protocol.FileTransferUpload {
			t.closed = true
			x.send(from, &protocol.Frame{Type: protocol.FrameStreamClose, StreamID: f.StreamID})
		}
	case protocol.FrameStreamClose, protocol.FrameStreamReset:
		if t := x.by[[2]uint64{uint64(from), f.StreamID}]; t != nil {
			t.closed = true
		}
	case protocol.FrameICMPOpen:
		o, err := protocol.DecodeICMPOpen(f.Payload)
		if err != nil {
			return
		}
		t := x.open(from, f.StreamID, o.RequestID, o.EphemeralPubKey, "")
		id, k := x.ack(t)
		t.acked = true
		x.send(from, &protocol.Frame{Type: protocol.FrameICMPOpenAck, StreamID: f.StreamID, Payload: (&protocol.ICMPOpenAck{RequestID: id, EphemeralPubKey: k}).Encode()})
	case protocol.FrameICMPEcho:
		t := x.by[[2]uint64{uint64(from), f.StreamID}]
		e, err := protocol.DecodeICMPEcho(f.Payload)
		if t == nil || err != nil || e.IsReply {
			return
		}
		t.data = append(t.data, append([]byte(nil), e.Data...))
		if t.sk != nil && x.cs.Mode != "degenerate" {
			rep := &protocol.ICMPEcho{Identifier: e.Identifier, Sequence: e.Sequence, IsReply: true, SrcIP: []byte{10, 9, 0, 1}, Data: x.seal(t, []byte(c03xEcho))}
			x.send(from, &protocol.Frame{Type: protocol.FrameICMPEcho, StreamID: f.StreamID, Payload: rep.Encode()})
		}
	case protocol.FrameICMPClose:
		if t := x.by[[2]uint64{uint64(from), f.StreamID}]; t != nil {
			t.closed = true
		}
	}
}

// pump moves the mesh: frames for the scripted node are handled here, every other frame is
// delivered to its real agent. Returns the number of frames moved.
func (x *c03xFar) pump() int {
	n := 0
	for rounds := 0; rounds < 100000; rounds++ {
		p := x.nt.pending()
		if len(p) == 0 {
			return n
		}
		k := p[0]
		if k[1] == x.node {
			for _, b := range x.nt.takeAll(k) {
				x.handle(k[0], b)
				n++
			}
			continue
		}
		x.nt.deliver(k[0], k[1])
		n++
	}
	panic("C03: pump did not terminate")
}

// c03xAsync runs f in a goroutine and pumps until it returns; quiet is called whenever the mesh
// is quiescent and f has not returned yet.
func c03xAsync[T any](pump func() int, quiet func(), f func() (T, error)) (T, error, bool) {
	var mu sync.Mutex
	var v T
	var err error
	done := false
	go func() {
		a, e := f()
		mu.Lock()
		v, err, done = a, e, true
		mu.Unlock()
	}()
	ok := nsWait(func() bool {
		n := pump()
		mu.Lock()
		d := done
		mu.Unlock()
		if !d && n == 0 && quiet != nil {
			quiet()
		}
		return d
	})
	pump()
	mu.Lock()
	defer mu.Unlock()
	return v, err, ok
}

// ---- one tunnel of a real initiator ---------------------------------------------------------

type c03xResult struct {
	returned  bool
	err       error
	ikey      [32]byte // initiator's key read from private state
	haveIKey  bool
	backKnown bool // the kind has an observable for responder-sealed data
	backOK    bool // the initiator accepted data sealed under the responder's key
	installed bool // some session object of the kind holds a key (degenerate cases)
	stalled   string // a completion barrier ran into its liveness timeout (never a verdict)
}

func c03xIsICMP(kind string) bool { return kind == "icmp-ws" || kind == "icmp-socks" }

func c03xOpen(nt *nsNet, x *c03xFar, cs c03xCase, ti int) c03xResult {
	A := nt.agents[0]
	last := nt.n - 1
	target := nt.ids[last]
	dest := net.IPv4(10, 9, 0, 1)
	ctx, cancel := context.WithCancel(context.Background())
	defer cancel()
	var res c03xResult
	// an initiator that ignores an ACK it cannot match keeps waiting: once the ACK has been
	// delivered and nothing moves, cancel its context
	quiet := func() {
		if cs.Mode == "reqid" && !c03xIsICMP(cs.Kind) && len(x.tunnels) > ti && x.tunnels[ti].acked {
			cancel()
		}
	}
	sent := func(n int) bool {
		return nsWait(func() bool { x.pump(); return len(x.tunnels) > ti && len(x.tunnels[ti].data) >= n })
	}
	dir := os.TempDir()
	switch cs.Kind {
	case "upload":
		local := filepath.Join(dir, fmt.Sprintf("c03x-up-%d.bin", ti))
		os.WriteFile(local, []byte(c03xProbe), 0o600)
		defer os.Remove(local)
		_, res.err, res.returned = c03xAsync(x.pump, quiet, func() (int, error) {
			return 0, A.UploadFile(ctx, target, local, "/tmp/c03x-remote.bin", health.TransferOptions{}, nil)
		})
		res.backKnown = true
		res.backOK = res.err != nil && strings.Contains(res.err.Error(), c03xEcho)
	case "download":
		local := filepath.Join(dir, fmt.Sprintf("c03x-down-%d.bin", ti))
		os.Remove(local)
		defer os.Remove(local)
		_, res.err, res.returned = c03xAsync(x.pump, quiet, func() (int, error) {
			return 0, A.DownloadFile(ctx, target, "/tmp/c03x-remote.bin", local, health.TransferOptions{}, nil)
		})
		got, _ := os.ReadFile(local)
		res.backKnown = true
		res.backOK = res.err == nil && string(got) == c03xEcho
	case "download-stream":
		var ds *health.DownloadStreamResult
		ds, res.err, res.returned = c03xAsync(x.pump, quiet, func() (*health.DownloadStreamResult, error) {
			return A.DownloadFileStream(ctx, target, "/tmp/c03x-remote.bin", health.TransferOptions{})
		})
		res.backKnown = true
		res.backOK = res.err != nil && strings.Contains(res.err.Error(), c03xEcho)
		if ds != nil && ds.Close != nil {
			ds.Close()
		}
	case "shell-stream", "shell-interactive":
		var sess *health.ShellSession
		sess, res.err, res.returned = c03xAsync(x.pump, quiet, func() (*health.ShellSession, error) {
			return A.OpenShellStream(ctx, target, &shell.ShellMeta{Command: "true"}, cs.Kind == "shell-interactive")
		})
		if sess != nil {
			A.shellClientMu.RLock()
			ad := A.shellClientStreams[sess.StreamID]
			A.shellClientMu.RUnlock()
			if ad != nil {
				if sk := ad.GetSessionKey(); sk != nil {
					res.ikey, res.haveIKey = sk.Key(), true
				}
			}
			if cs.Mode == "degenerate" {
				// accepted: show whether application data follows
				select {
				case sess.Send <- []byte(c03xProbe):
				default:
				}
				sent(2)
			} else if !sent(1) {
				res.stalled = "no metadata frame reached the far end"
			} else {
				// the responder answered the metadata frame with bytes sealed under its key
				res.backKnown = true
				if !nsWait(func() bool {
					x.pump()
					select {
					case b := <-sess.Receive:
						res.backOK = string(b) == c03xEcho
						return true
					case <-sess.Done:
						return true
					default:
						return false
					}
				}) {
					res.stalled = "neither shell bytes nor the end of the session arrived"
				}
			}
			sess.Close()
		}
		A.shellClientMu.RLock()
		for _, ad := range A.shellClientStreams {
			if ad.GetSessionKey() != nil {
				res.installed = true
			}
		}
		A.shellClientMu.RUnlock()
	case "icmp-ws":
		var sess *health.ICMPSession
		sess, res.err, res.returned = c03xAsync(x.pump, quiet, func() (*health.ICMPSession, error) {
			return A.OpenICMPSession(ctx, target, dest)
		})
		A.icmpWSSessionMu.RLock()
		for id, ws := range A.icmpWSSessionByStream {
			ws.mu.RLock()
			if ws.SessionKey != nil {
				res.installed = true
				if sess != nil && id == sess.StreamID {
					res.ikey, res.haveIKey = ws.SessionKey.Key(), true
				}
			}
			ws.mu.RUnlock()
		}
		A.icmpWSSessionMu.RUnlock()
		if sess != nil {
			sess.SendEcho <- &health.ICMPEchoRequest{Identifier: 7, Sequence: uint16(ti), Payload: []byte(c03xProbe)}
			if !sent(1) {
				res.stalled = "the echo request never reached the far end"
			} else if cs.Mode != "degenerate" {
				res.backKnown = true
				if !nsWait(func() bool {
					x.pump()
					select {
					case resp := <-sess.ReceiveEcho:
						res.backOK = resp.Error == "" && string(resp.Payload) == c03xEcho
						return true
					default:
						return false
					}
				}) {
					res.stalled = "no echo response reached the session"
				}
			}
			sess.Close()
		}
	case "icmp-socks":
		var sid uint64
		sid, res.err, res.returned = c03xAsync(x.pump, quiet, func() (uint64, error) { return A.CreateICMPSession(ctx, dest) })
		A.icmpIngressMu.RLock()
		for id, ing := range A.icmpIngressByStream {
			ing.mu.RLock()
			if ing.SessionKey != nil {
				res.installed = true
				if res.err == nil && id == sid {
					res.ikey, res.haveIKey = ing.SessionKey.Key(), true
				}
			}
			ing.mu.RUnlock()
		}
		A.icmpIngressMu.RUnlock()
		if res.err == nil && res.returned {
			A.RelayICMPEcho(sid, 9, uint16(ti), []byte(c03xProbe))
			if !sent(1) {
				res.stalled = "the echo request never reached the far end"
			}
			A.CloseICMPSession(sid)
		}
	}
	x.pump()
	return res
}

func c03xInitiator(r *vmc.Result, cs c03xCase, keys map[[32]byte]string) {
	nt, err := c03xBuild(cs.Transits, false)
	if err != nil {
		r.HarnessError("C03 build: %v", err)
		return
	}
	defer nt.close()
	x := &c03xFar{nt: nt, node: nt.n - 1, cs: cs, by: map[[2]uint64]*c03xTunnel{}}
	fail := func(clause, what string) {
		tag := cs.Mode
		switch cs.Mode {
		case "bitflip":
			tag = fmt.Sprintf("responder public key bit %d flipped in the ACK", cs.Bit)
		case "reqid":
			tag = fmt.Sprintf("ACK echoes request id XOR %#x", cs.EchoXor)
		case "degenerate":
			tag = "ACK carries the degenerate key " + cs.Key
		}
		r.Violate("C03/"+clause+"/initiator/"+cs.Kind, fmt.Sprintf("real initiator %s, %d transit(s), %s: %s", cs.Kind, cs.Transits, tag, what), cs)
	}
	tunnels := 1
	if cs.Mode == "honest" {
		tunnels = 2
	}
	for ti := 0; ti < tunnels; ti++ {
		res := c03xOpen(nt, x, cs, ti)
		r.Add("evaluations", 1)
		if !res.returned {
			r.HarnessError("C03 %+v tunnel %d: the initiator did not return", cs, ti)
			return
		}
		if len(x.tunnels) != ti+1 {
			r.HarnessError("C03 %+v tunnel %d: the far end saw %d OPEN(s) (err=%v)", cs, ti, len(x.tunnels), res.err)
			return
		}
		if res.stalled != "" && cs.Mode == "honest" {
			r.HarnessError("C03 %+v tunnel %d: %s", cs, ti, res.stalled)
			return
		}
		t := x.tunnels[ti]
		opensUnderResponderKey := 0
		for _, d := range t.data {
			if _, ok := c03xRawOpen(t.key, d); ok && t.sk != nil {
				opensUnderResponderKey++
			}
		}
		switch cs.Mode {
		case "honest":
			if len(t.data) == 0 {
				if res.err != nil {
					fail("honest-ack-refused", fmt.Sprintf("tunnel %d: %v", ti, res.err))
				} else {
					fail("no-data-frame", fmt.Sprintf("tunnel %d: initiator emitted no sealed frame to compare keys on", ti))
				}
				return
			}
			if _, ok := c03xRawOpen(t.key, t.data[0]); !ok {
				fail("keys-differ", fmt.Sprintf("tunnel %d (request id %d): the first sealed frame of the initiator does not open under the key the responder derives", ti, t.reqID))
			} else if _, err := t.sk.Decrypt(t.data[0]); err != nil {
				fail("role-mismatch", fmt.Sprintf("tunnel %d: the key bytes agree but the responder's SessionKey rejects the initiator's first frame: %v", ti, err))
			}
			if res.haveIKey && res.ikey != t.key {
				fail("keys-differ", fmt.Sprintf("tunnel %d (request id %d): initiator holds %x..., responder holds %x...", ti, t.reqID, res.ikey[:6], t.key[:6]))
			}
			if res.backKnown && !res.backOK {
				fail("responder-data-rejected", fmt.Sprintf("tunnel %d: data sealed under the responder's key was not accepted by the initiator (returned %v)", ti, res.err))
			}
			if prev, dup := keys[t.key]; dup {
				fail("key-reused", fmt.Sprintf("tunnel %d has the same key as tunnel %s", ti, prev))
			}
			keys[t.key] = fmt.Sprintf("init/%s/t%d/#%d", cs.Kind, cs.Transits, ti)
			r.Nontrivial(fmt.Sprintf("init|%s|t%d|honest|#%d", cs.Kind, cs.Transits, ti))
			r.Outcome(fmt.Sprintf("init|%s|honest|same-key", cs.Kind))
		case "bitflip", "reqid":
			out := "refused"
			if len(t.data) > 0 {
				out = "different-key"
			}
			if opensUnderResponderKey > 0 {
				out = "same-key"
				fail("tampered-ack-same-key", fmt.Sprintf("%d frame(s) of the initiator open under the key the responder holds", opensUnderResponderKey))
			} else if res.haveIKey && res.ikey == t.key {
				out = "same-key"
				fail("tampered-ack-same-key", "the initiator stores the key the responder holds")
			} else if res.backOK {
				out = "same-key"
				fail("tampered-ack-same-key", "the initiator accepted data sealed under the key the responder holds")
			}
			r.Nontrivial(fmt.Sprintf("init|%s|%s|%s", cs.Kind, cs.Mode, out))
			r.Outcome(fmt.Sprintf("init|%s|%s|%s", cs.Kind, cs.Mode, out))
		case "degenerate":
			out := "refused"
			if res.err == nil || len(t.data) > 0 || res.installed || res.haveIKey {
				out = "ACCEPTED"
			}
			r.Outcome(fmt.Sprintf("init|%s|degenerate|%s", cs.Kind, out))
			if res.err == nil {
				fail("degenerate-key-accepted", fmt.Sprintf("the initiator returned success (%d data frame(s) followed)", len(t.data)))
			} else if len(t.data) > 0 {
				fail("data-sent-under-degenerate-key", fmt.Sprintf("the initiator reported %v but emitted %d data frame(s) after the ACK", res.err, len(t.data)))
			}
			if res.installed || res.haveIKey {
				fail("degenerate-key-produced-session-key", "a session object of the initiator holds a session key although the ACK carried a degenerate public key")
			}
		}
	}
}

// ---- ICMP responder (real exit handler over the socket seam) ------------------------------------

func c03xICMPResponder(r *vmc.Result, cs c03xCase, keys map[[32]byte]string) {
	nt, err := c03xBuild(0, true)
	if err != nil {
		r.HarnessError("C03 build: %v", err)
		return
	}
	defer nt.close()
	X := nt.agents[1]
	if X.icmpHandler == nil {
		r.HarnessError("C03 icmp-responder: exit has no ICMP handler")
		return
	}
	fail := func(clause, what string) {
		r.Violate("C03/"+clause+"/responder/icmp", fmt.Sprintf("responder icmp request id %d remote key %q: %s", cs.ReqID, cs.Key, what), cs)
	}
	priv, pub, _ := crypto.GenerateEphemeralKeypair()
	if cs.Key != "" {
		pub = c03Hex(cs.Key)
	}
	sid := uint64(77) // differs from every request id of the grid
	send := func(f *protocol.Frame) {
		b, _ := f.Encode()
		nt.inject(0, 1, b)
	}
	wait := func(types ...uint8) *protocol.Frame {
		var found *protocol.Frame
		nsWait(func() bool {
			for _, b := range nt.takeAll([2]int{1, 0}) {
				f, err := protocol.Decode(b)
				if err != nil || f.StreamID != sid {
					continue
				}
				for _, t := range types {
					if f.Type == t && found == nil {
						found = f
					}
				}
			}
			return found != nil
		})
		return found
	}
	nt.takeAll([2]int{1, 0})
	o := &protocol.ICMPOpen{RequestID: cs.ReqID, DestIP: []byte{10, 9, 0, 1}, TTL: 1, EphemeralPubKey: pub}
	send(&protocol.Frame{Type: protocol.FrameICMPOpen, StreamID: sid, Payload: o.Encode()})
	f := wait(protocol.FrameICMPOpenAck, protocol.FrameICMPOpenErr)
	r.Add("evaluations", 1)
	if f == nil {
		fail("open-unanswered", "no ACK or ERR")
		return
	}
	var ack *protocol.ICMPOpenAck
	if f.Type == protocol.FrameICMPOpenAck {
		ack, _ = protocol.DecodeICMPOpenAck(f.Payload)
	}
	var rk [32]byte
	has := false
	sess := X.icmpHandler.GetSession(sid)
	if sess != nil {
		if sk := sess.GetSessionKey(); sk != nil {
			rk, has = sk.Key(), true
		}
	}
	if cs.Key != "" {
		r.Outcome(fmt.Sprintf("degenerate|icmp|acked=%v|key=%v", ack != nil, has))
		if has {
			fail("degenerate-key-produced-session-key", fmt.Sprintf("responder installed a session key (acked=%v)", ack != nil))
		}
		return
	}
	if ack == nil {
		fail("honest-open-refused", "responder refused an honest open")
		return
	}
	shared, err := crypto.ComputeECDH(priv, ack.EphemeralPubKey)
	if err != nil {
		fail("honest-ack-key-unusable", err.Error())
		return
	}
	// as the real ingress derives: with the request id echoed in the ACK
	isk := crypto.DeriveSessionKey(shared, ack.RequestID, pub, ack.EphemeralPubKey, true)
	ik := isk.Key()
	if !has || ik != rk {
		fail("keys-differ", fmt.Sprintf("initiator derives %x... (with the echoed request id %d), responder holds %x... (has=%v)", ik[:6], ack.RequestID, rk[:6], has))
		return
	}
	if prev, dup := keys[ik]; dup {
		fail("key-reused", "same key as tunnel "+prev)
	}
	keys[ik] = fmt.Sprintf("icmp-responder/req%d", cs.ReqID)
	// data path: echo body sealed by the initiator -> plaintext at the socket; reply sealed by the exit -> opens at the initiator
	ct, _ := isk.Encrypt([]byte(c03xProbe))
	e := &protocol.ICMPEcho{Identifier: 5, Sequence: 1, Data: ct}
	send(&protocol.Frame{Type: protocol.FrameICMPEcho, StreamID: sid, Payload: e.Encode()})
	socks := vicmp.Conns()
	if len(socks) != 1 {
		r.HarnessError("C03 icmp-responder: %d sockets opened for one session", len(socks))
		return
	}
	if s := socks[0].Sent(); len(s) != 1 || !bytes.Equal(s[0].Data, []byte(c03xProbe)) {
		fail("role-mismatch", fmt.Sprintf("an echo body sealed under the initiator's key did not reach the exit's socket as the plaintext (%d echo request(s) written)", len(s)))
		return
	}
	rf := wait(protocol.FrameICMPEcho)
	if rf == nil {
		r.HarnessError("C03 %+v: no echo reply came back from the exit (liveness timeout)", cs)
		return
	}
	if rep, err := protocol.DecodeICMPEcho(rf.Payload); err != nil || !rep.IsReply {
		fail("responder-data-rejected", "undecodable echo reply")
	} else if pt, err := isk.Decrypt(rep.Data); err != nil || !bytes.Equal(pt, []byte(c03xProbe)) {
		fail("responder-data-rejected", fmt.Sprintf("the reply sealed by the exit does not open under the initiator's key: %v", err))
	}
	send(&protocol.Frame{Type: protocol.FrameICMPClose, StreamID: sid, Payload: (&protocol.ICMPClose{Reason: protocol.ICMPCloseNormal}).Encode()})
	r.Nontrivial(fmt.Sprintf("resp|icmp|%d", cs.ReqID))
	r.Outcome("resp|icmp|same-key")
}

// real ingress against the real exit handler
func c03xICMPEndToEnd(r *vmc.Result, cs c03xCase, keys map[[32]byte]string) {
	nt, err := c03xBuild(cs.Transits, true)
	if err != nil {
		r.HarnessError("C03 build: %v", err)
		return
	}
	defer nt.close()
	A, X := nt.agents[0], nt.agents[nt.n-1]
	fail := func(clause, what string) {
		r.Violate("C03/"+clause+"/end-to-end/"+cs.Kind, fmt.Sprintf("real ingress and real exit, %s, %d transit(s): %s", cs.Kind, cs.Transits, what), cs)
	}
	pump := func() int { return nt.run(nil, 1000) }
	ctx := context.Background()
	dest := net.IPv4(10, 9, 0, 1)
	var ikey [32]byte
	var reqID uint64
	have := false
	var sess *health.ICMPSession
	var sid uint64
	var ok bool
	switch cs.Kind {
	case "icmp-ws-e2e":
		sess, err, ok = c03xAsync(pump, nil, func() (*health.ICMPSession, error) { return A.OpenICMPSession(ctx, nt.ids[nt.n-1], dest) })
		if ok && err == nil {
			A.icmpWSSessionMu.RLock()
			ws := A.icmpWSSessionByStream[sess.StreamID]
			A.icmpWSSessionMu.RUnlock()
			if ws != nil && ws.SessionKey != nil {
				ikey, reqID, have = ws.SessionKey.Key(), ws.RequestID, true
			}
		}
	case "icmp-socks-e2e":
		sid, err, ok = c03xAsync(pump, nil, func() (uint64, error) { return A.CreateICMPSession(ctx, dest) })
		if ok && err == nil {
			A.icmpIngressMu.RLock()
			ing := A.icmpIngressByStream[sid]
			A.icmpIngressMu.RUnlock()
			if ing != nil && ing.SessionKey != nil {
				ikey, reqID, have = ing.SessionKey.Key(), ing.RequestID, true
			}
		}
	}
	r.Add("evaluations", 1)
	if !ok {
		r.HarnessError("C03 %+v: the initiator did not return", cs)
		return
	}
	if err != nil || !have {
		fail("honest-open-refused", fmt.Sprintf("err=%v, ingress holds a key: %v", err, have))
		return
	}
	xs := X.icmpHandler.GetSessionByRequestID(reqID)
	if xs == nil || xs.GetSessionKey() == nil {
		fail("keys-differ", "the exit holds no keyed session for the request id")
		return
	}
	if rk := xs.GetSessionKey().Key(); rk != ikey {
		fail("keys-differ", fmt.Sprintf("ingress holds %x..., exit holds %x...", ikey[:6], rk[:6]))
		return
	}
	if prev, dup := keys[ikey]; dup {
		fail("key-reused", "same key as tunnel "+prev)
	}
	keys[ikey] = fmt.Sprintf("%s/t%d", cs.Kind, cs.Transits)
	atSocket := func() bool {
		pump()
		c := vicmp.Conns()
		return len(c) == 1 && len(c[0].Sent()) == 1
	}
	if sess != nil {
		sess.SendEcho <- &health.ICMPEchoRequest{Identifier: 7, Sequence: 1, Payload: []byte(c03xProbe)}
		var resp *health.ICMPEchoResponse
		got := nsWait(func() bool {
			pump()
			select {
			case resp = <-sess.ReceiveEcho:
				return true
			default:
				return false
			}
		})
		if !got {
			r.HarnessError("C03 %+v: no echo response reached the session (liveness timeout)", cs)
			return
		}
		if resp.Error != "" || string(resp.Payload) != c03xProbe {
			fail("responder-data-rejected", fmt.Sprintf("echo round trip failed: error %q, %d payload byte(s)", resp.Error, len(resp.Payload)))
		}
		sess.Close()
	} else {
		A.RelayICMPEcho(sid, 9, 1, []byte(c03xProbe))
		if !nsWait(atSocket) {
			r.HarnessError("C03 %+v: the echo request never reached the exit's socket (liveness timeout)", cs)
			return
		}
		A.CloseICMPSession(sid)
	}
	if c := vicmp.Conns(); len(c) != 1 || len(c[0].Sent()) != 1 || !bytes.Equal(c[0].Sent()[0].Data, []byte(c03xProbe)) {
		fail("role-mismatch", "the echo body sealed by the ingress did not reach the exit's socket as the plaintext")
	}
	pump()
	r.Nontrivial(fmt.Sprintf("e2e|%s|t%d", cs.Kind, cs.Transits))
	r.Outcome("e2e|" + cs.Kind + "|same-key")
}

func c03xRun(r *vmc.Result, cs c03xCase, keys map[[32]byte]string) {
	switch cs.Kind {
	case "icmp-responder":
		c03xICMPResponder(r, cs, keys)
	case "icmp-ws-e2e", "icmp-socks-e2e":
		c03xICMPEndToEnd(r, cs, keys)
	default:
		c03xInitiator(r, cs, keys)
	}
}

var c03xKinds = []string{"upload", "download", "download-stream", "shell-stream", "shell-interactive", "icmp-ws", "icmp-socks"}

func c03xAll(r *vmc.Result, keys map[[32]byte]string) {
	r.Rule += " || second half: real initiators {UploadFile, DownloadFile, DownloadFileStream, OpenShellStream x2, OpenICMPSession, CreateICMPSession} x transits x {two honest tunnels in a row; ACK with one bit of the responder key flipped (quick 8 positions, thorough all 256); ACK echoing a different request id (quick 2 values, thorough every single-bit change and the complement); each of the 14 degenerate keys} against a scripted honest responder; real ICMP exit handler (socket seam) x request ids x fresh keys x degenerate keys, and real ICMP ingress against real exit; non-trivial = honest handshakes completed (by kind, topology, tunnel) and tampered ACKs by kind, mode and outcome"
	r.Assume("second half: the far end of the initiator cases is scripted (an honest responder built from the real encoders and crypto package); the ICMP exit handler runs over a loopback fake of the ICMP socket (internal/icmp/socket.go: icmp.ListenPacket / icmp.PacketConn substituted, nothing else)")
	transits := []int{0, 1}
	bits := []int{0, 1, 7, 8, 127, 128, 254, 255}
	xors := []uint64{1, 1 << 63}
	reps := vmc.Pick(r, 2, 6)
	if r.Thorough() {
		transits = []int{0, 1, 2}
		bits = nil
		for b := 0; b < 256; b++ {
			bits = append(bits, b)
		}
		xors = []uint64{^uint64(0)}
		for b := 0; b < 64; b++ {
			xors = append(xors, 1<<uint(b))
		}
	}
	r.Info["ext_bit_positions"] = len(bits)
	for _, kind := range c03xKinds {
		for _, tr := range transits {
			for i := 0; i < reps; i++ {
				c03xRun(r, c03xCase{Ext: true, Kind: kind, Mode: "honest", Transits: tr}, keys)
			}
			for _, b := range bits {
				if r.Expired() {
					return
				}
				c03xRun(r, c03xCase{Ext: true, Kind: kind, Mode: "bitflip", Transits: tr, Bit: b}, keys)
			}
			for _, xr := range xors {
				c03xRun(r, c03xCase{Ext: true, Kind: kind, Mode: "reqid", Transits: tr, EchoXor: xr}, keys)
			}
			for _, dk := range c03Degenerate {
				c03xRun(r, c03xCase{Ext: true, Kind: kind, Mode: "degenerate", Transits: tr, Key: dk}, keys)
			}
		}
	}
	for _, q := range []uint64{1, 2, 1 << 32, 1<<63 + 5} {
		for i := 0; i < reps; i++ {
			c03xRun(r, c03xCase{Ext: true, Kind: "icmp-responder", Mode: "honest", ReqID: q}, keys)
		}
	}
	for _, dk := range c03Degenerate {
		c03xRun(r, c03xCase{Ext: true, Kind: "icmp-responder", Mode: "degenerate", ReqID: 7, Key: dk}, keys)
	}
	for _, kind := range []string{"icmp-ws-e2e", "icmp-socks-e2e"} {
		for _, tr := range []int{0, 1} {
			for i := 0; i < reps; i++ {
				c03xRun(r, c03xCase{Ext: true, Kind: kind, Mode: "honest", Transits: tr}, keys)
			}
		}
	}
	r.Sample(c03xCase{Ext: true, Kind: "upload", Mode: "bitflip", Bit: 254})
	r.Sample(c03xCase{Ext: true, Kind: "icmp-ws", Mode: "degenerate", Key: c03Degenerate[3]})
}
