//go:build verif

package agent

// C03 -- tunnel ends derive the same key; distinct tunnels get distinct keys; degenerate keys refused.
//
// Engine E2 (netsim). Responder paths: a scripted initiator (real crypto, real encoders) opens every
// tunnel kind on a real agent X -- tcp (exit handler), port forward, UDP association, file upload,
// file download, shell stream, interactive shell -- for a grid of request identifiers x fresh
// ephemeral keys; after the ACK the initiator derives its key with crypto.DeriveSessionKey(..., true)
// and the responder's stored key (read in-package through //go:build verif accessors) must be equal.
// Initiator paths: the REAL ingress code (DialContext, DialForward, RelayUDPDatagram) runs against a
// scripted responder that derives its key as the exit would; the first sealed frame the ingress
// emits must open under it. All keys of the run must be pairwise distinct. Degenerate remote keys
// (all-zero, the small-order points of Curve25519 and their non-canonical encodings) are presented
// to every responder kind (in the OPEN) and to every real initiator (in the ACK): no session key may
// be installed / no connection returned.
//
// The shell / file-transfer / ICMP INITIATORS, the ICMP exit handler and ICMP end to end are the
// second half of this check: initiators_test.go (c03xAll), called below through the same Result.

import (
	"context"
	"encoding/hex"
	"fmt"
	"net"
	"sync"
	"testing"

	"golang.org/x/crypto/chacha20poly1305"

	"github.com/postalsys/muti-metroo/internal/config"
	"github.com/postalsys/muti-metroo/internal/crypto"
	"github.com/postalsys/muti-metroo/internal/identity"
	"github.com/postalsys/muti-metroo/internal/protocol"
	"github.com/postalsys/muti-metroo/internal/vmc"
	"github.com/postalsys/muti-metroo/internal/vmc/vnet"
)

var c03Degenerate = []string{
	"0000000000000000000000000000000000000000000000000000000000000000",
	"0100000000000000000000000000000000000000000000000000000000000000",
	"e0eb7a7c3b41b8ae1656e3faf19fc46ada098deb9c32b1fd866205165f49b800",
	"5f9c95bca3508c24b1d0b1559c83ef5b04445cc4581c8e86d8224eddd09f1157",
	"ecffffffffffffffffffffffffffffffffffffffffffffffffffffffffffff7f",
	"edffffffffffffffffffffffffffffffffffffffffffffffffffffffffffff7f",
	"eeffffffffffffffffffffffffffffffffffffffffffffffffffffffffffff7f",
	"0000000000000000000000000000000000000000000000000000000000000080",
	"0100000000000000000000000000000000000000000000000000000000000080",
	"e0eb7a7c3b41b8ae1656e3faf19fc46ada098deb9c32b1fd866205165f49b880",
	"5f9c95bca3508c24b1d0b1559c83ef5b04445cc4581c8e86d8224eddd09f11d7",
	"ecffffffffffffffffffffffffffffffffffffffffffffffffffffffffffffff",
	"edffffffffffffffffffffffffffffffffffffffffffffffffffffffffffffff",
	"eeffffffffffffffffffffffffffffffffffffffffffffffffffffffffffffff",
}

type c03Case struct {
	Side  string `json:"side"` // responder | initiator
	Kind  string `json:"kind"`
	ReqID uint64 `json:"req_id,omitempty"`
	Key   string `json:"remote_key,omitempty"` // degenerate key (hex) or "" for an honest key
}

func c03World() (*nsNet, func(), error) {
	vnet.Reset()
	nt, err := nsNew(2, func(i int, cfg *config.Config) {
		if i == 1 {
			cfg.Exit.Enabled = true
			cfg.Exit.Routes = []string{"0.0.0.0/0"}
			cfg.Forward.Endpoints = []config.ForwardEndpoint{{Key: "svc", Target: "10.8.0.1:7100"}}
			cfg.UDP.Enabled = true
			cfg.FileTransfer.Enabled = true
			cfg.FileTransfer.AllowedPaths = []string{"/tmp"}
			cfg.Shell.Enabled = true
			cfg.Shell.Whitelist = []string{"true"}
		}
		if i == 0 {
			cfg.UDP.Enabled = true
		}
	})
	if err != nil {
		return nil, nil, err
	}
	nt.connect(0, 1)
	t1 := nsNewTarget("10.9.0.1:7001")
	t2 := nsNewTarget("10.8.0.1:7100")
	return nt, func() { t1.close(); t2.close(); nt.close() }, nil
}

var (
	c03mu      sync.Mutex
	dataFrames []*protocol.Frame
)

func c03Hex(s string) (k [32]byte) {
	b, _ := hex.DecodeString(s)
	copy(k[:], b)
	return
}

// responder side: scripted initiator against the real agent X (node 1)
func c03Responder(r *vmc.Result, cs c03Case, keys map[[32]byte]string) {
	nt, done, err := c03World()
	if err != nil {
		r.HarnessError("C03 build: %v", err)
		return
	}
	defer done()
	ep := nt.endpoint(0)
	nt.settle(ep)
	X := nt.agents[1]
	fail := func(clause, what string) {
		r.Violate("C03/"+clause+"/responder/"+cs.Kind, fmt.Sprintf("responder %s request id %d remote key %q: %s", cs.Kind, cs.ReqID, cs.Key, what), cs)
	}
	priv, pub, _ := crypto.GenerateEphemeralKeypair()
	if cs.Key != "" {
		pub = c03Hex(cs.Key)
	}
	sid := uint64(1)
	var ackKey [32]byte
	acked, answered := false, false
	wait := func(types ...uint8) *protocol.Frame {
		var found *protocol.Frame
		nsWait(func() bool {
			for _, k := range nt.pending() {
				if k[1] != 0 {
					nt.deliver(k[0], k[1])
					continue
				}
				for _, b := range nt.takeAll(k) {
					f, err := protocol.Decode(b)
					if err != nil || f.StreamID != sid {
						continue
					}
					for _, t := range types {
						if f.Type == t {
							found = f
						}
					}
				}
			}
			return found != nil
		})
		return found
	}
	send := func(f *protocol.Frame) {
		b, _ := f.Encode()
		nt.inject(0, 1, b)
	}
	switch cs.Kind {
	case "tcp", "forward", "file-upload", "file-download", "shell-stream", "shell-interactive":
		var addr []byte
		at := uint8(protocol.AddrTypeDomain)
		port := uint16(0)
		name := map[string]string{"forward": protocol.ForwardStreamPrefix + "svc", "file-upload": protocol.FileTransferUpload, "file-download": protocol.FileTransferDownload, "shell-stream": protocol.ShellStream, "shell-interactive": protocol.ShellInteractive}[cs.Kind]
		if cs.Kind == "tcp" {
			at, addr, port = protocol.AddrTypeIPv4, []byte{10, 9, 0, 1}, 7001
		} else {
			addr = append([]byte{byte(len(name))}, name...)
		}
		o := &protocol.StreamOpen{RequestID: cs.ReqID, AddressType: at, Address: addr, Port: port, EphemeralPubKey: pub}
		send(&protocol.Frame{Type: protocol.FrameStreamOpen, StreamID: sid, Payload: o.Encode()})
		if f := wait(protocol.FrameStreamOpenAck, protocol.FrameStreamOpenErr); f != nil {
			answered = true
			if f.Type == protocol.FrameStreamOpenAck {
				if a, err := protocol.DecodeStreamOpenAck(f.Payload); err == nil {
					acked, ackKey = true, a.EphemeralPubKey
				}
			}
		}
	case "udp":
		o := &protocol.UDPOpen{RequestID: cs.ReqID, AddressType: protocol.AddrTypeIPv4, Address: []byte{0, 0, 0, 0}, TTL: 4, EphemeralPubKey: pub}
		send(&protocol.Frame{Type: protocol.FrameUDPOpen, StreamID: sid, Payload: o.Encode()})
		if f := wait(protocol.FrameUDPOpenAck, protocol.FrameUDPOpenErr); f != nil {
			answered = true
			if f.Type == protocol.FrameUDPOpenAck {
				if a, err := protocol.DecodeUDPOpenAck(f.Payload); err == nil {
					acked, ackKey = true, a.EphemeralPubKey
				}
			}
		}
	}
	if !answered {
		fail("open-unanswered", "no ACK or ERR")
		return
	}
	// responder's stored key
	var rk [32]byte
	has := false
	switch cs.Kind {
	case "tcp":
		rk, has = X.exitHandler.VerifSessionKey(sid)
	case "forward":
		rk, has = X.forwardHandler.VerifSessionKey(sid)
	case "udp":
		rk, has, _ = X.udpHandler.VerifSessionKey(sid)
	case "file-upload", "file-download":
		X.fileStreamsMu.RLock()
		if fs := X.fileStreams[sid]; fs != nil && fs.sessionKey != nil {
			rk, has = fs.sessionKey.Key(), true
		}
		X.fileStreamsMu.RUnlock()
	case "shell-stream", "shell-interactive":
		rk, has = X.shellHandler.VerifSessionKey(sid)
	}
	r.Add("evaluations", 1)
	if cs.Key != "" {
		// degenerate remote key: no session key may exist at the responder
		r.Outcome(fmt.Sprintf("degenerate|%s|acked=%v|key=%v", cs.Kind, acked, has))
		if has {
			fail("degenerate-key-produced-session-key", fmt.Sprintf("responder installed a session key (acked=%v)", acked))
		}
		return
	}
	if !acked {
		fail("honest-open-refused", "responder refused an honest open")
		return
	}
	shared, err := crypto.ComputeECDH(priv, ackKey)
	if err != nil {
		fail("honest-ack-key-unusable", err.Error())
		return
	}
	ik := crypto.DeriveSessionKey(shared, cs.ReqID, pub, ackKey, true).Key()
	if !has || ik != rk {
		fail("keys-differ", fmt.Sprintf("initiator derived %x..., responder holds %x... (has=%v)", ik[:6], rk[:6], has))
	}
	if prev, dup := keys[ik]; dup {
		fail("key-reused", "same key as tunnel "+prev)
	}
	keys[ik] = fmt.Sprintf("%s/req%d", cs.Kind, cs.ReqID)
	r.Nontrivial(fmt.Sprintf("resp|%s|%d", cs.Kind, cs.ReqID))
}

// initiator side: the real ingress (node 0) against a scripted responder (node 1 is never delivered to)
func c03Initiator(r *vmc.Result, cs c03Case, keys map[[32]byte]string) {
	vnet.Reset()
	nt, err := nsNew(2, func(i int, cfg *config.Config) { cfg.UDP.Enabled = i == 0 })
	if err != nil {
		r.HarnessError("C03 build: %v", err)
		return
	}
	defer nt.close()
	nt.connect(0, 1)
	// give the ingress routes to the scripted exit: inject a crafted advertisement from node 1
	adv := &protocol.RouteAdvertise{OriginAgent: nt.ids[1], Sequence: 1, SeenBy: nil,
		Path: nil, EncPath: &protocol.EncryptedData{Data: protocol.EncodePath(nil)}}
	adv.Routes = []protocol.Route{
		{AddressFamily: protocol.AddrFamilyIPv4, PrefixLength: 0, Prefix: []byte{0, 0, 0, 0}, Metric: 0},
		{AddressFamily: protocol.AddrFamilyForward, Prefix: protocol.EncodeForwardKeyWithTarget("svc", "10.8.0.1:7100"), Metric: 0},
		{AddressFamily: protocol.AddrFamilyAgent, Prefix: protocol.EncodeAgentPrefix(nt.ids[1]), Metric: 0},
	}
	adv.EncPath = &protocol.EncryptedData{Encrypted: false, Data: protocol.EncodePath([]identity.AgentID{nt.ids[1]})}
	fb, _ := (&protocol.Frame{Type: protocol.FrameRouteAdvertise, Payload: adv.Encode()}).Encode()
	nt.takeAll([2]int{0, 1})
	nt.inject(1, 0, fb)
	nt.takeAll([2]int{0, 1})
	A := nt.agents[0]
	// make the request id differ from the per-connection stream id (both would be 1 otherwise)
	A.streamMgr.NextRequestID()
	A.streamMgr.NextRequestID()
	ctx, cancel := context.WithCancel(context.Background())
	defer cancel()
	fail := func(clause, what string) {
		r.Violate("C03/"+clause+"/initiator/"+cs.Kind, fmt.Sprintf("initiator %s remote key %q: %s", cs.Kind, cs.Key, what), cs)
	}
	rpriv, rpub, _ := crypto.GenerateEphemeralKeypair()
	if cs.Key != "" {
		rpub = c03Hex(cs.Key)
	}
	var respKey *[32]byte
	var openFrame *protocol.Frame
	// scripted responder: answer the first OPEN with an ACK carrying rpub
	respond := func() {
		for _, b := range nt.takeAll([2]int{0, 1}) {
			f, err := protocol.Decode(b)
			if err != nil {
				continue
			}
			switch f.Type {
			case protocol.FrameStreamOpen:
				o, err := protocol.DecodeStreamOpen(f.Payload)
				if err != nil {
					continue
				}
				openFrame = f
				if cs.Key == "" {
					if sh, err := crypto.ComputeECDH(rpriv, o.EphemeralPubKey); err == nil {
						k := crypto.DeriveSessionKey(sh, o.RequestID, o.EphemeralPubKey, rpub, false).Key()
						respKey = &k
					}
				}
				ack := &protocol.StreamOpenAck{RequestID: o.RequestID, BoundAddrType: protocol.AddrTypeIPv4, BoundAddr: []byte{10, 0, 0, 9}, BoundPort: 9, EphemeralPubKey: rpub}
				ab, _ := (&protocol.Frame{Type: protocol.FrameStreamOpenAck, StreamID: f.StreamID, Payload: ack.Encode()}).Encode()
				nt.inject(1, 0, ab)
			case protocol.FrameUDPOpen:
				o, err := protocol.DecodeUDPOpen(f.Payload)
				if err != nil {
					continue
				}
				openFrame = f
				if cs.Key == "" {
					if sh, err := crypto.ComputeECDH(rpriv, o.EphemeralPubKey); err == nil {
						k := crypto.DeriveSessionKey(sh, o.RequestID, o.EphemeralPubKey, rpub, false).Key()
						respKey = &k
					}
				}
				ack := &protocol.UDPOpenAck{RequestID: o.RequestID, BoundAddrType: protocol.AddrTypeIPv4, BoundAddr: []byte{10, 0, 0, 9}, BoundPort: 9, EphemeralPubKey: rpub}
				ab, _ := (&protocol.Frame{Type: protocol.FrameUDPOpenAck, StreamID: f.StreamID, Payload: ack.Encode()}).Encode()
				nt.inject(1, 0, ab)
			case protocol.FrameStreamData, protocol.FrameUDPDatagram:
				dataFrames = append(dataFrames, f)
			}
		}
	}
	dataFrames = nil
	type res struct {
		conn net.Conn
		err  error
		done bool
	}
	var out res
	go func() {
		var c net.Conn
		var e error
		switch cs.Kind {
		case "tcp":
			c, e = A.DialContext(ctx, "tcp", "10.9.0.1:7001")
		case "forward":
			c, e = A.DialForward(ctx, "svc")
		case "udp":
			var base uint64
			base, e = A.CreateUDPAssociation(ctx, nil)
			if e == nil {
				e = A.RelayUDPDatagram(base, &net.UDPAddr{IP: net.IPv4(10, 9, 0, 1), Port: 53}, 53, protocol.AddrTypeIPv4, []byte{10, 9, 0, 1}, []byte("C03-PROBE-PAYLOAD"))
			}
		}
		c03mu.Lock()
		out = res{c, e, true}
		c03mu.Unlock()
	}()
	if !nsWait(func() bool {
		respond()
		c03mu.Lock()
		defer c03mu.Unlock()
		return out.done
	}) {
		r.HarnessError("C03 initiator %v did not return", cs)
		return
	}
	respond()
	r.Add("evaluations", 1)
	if openFrame == nil {
		r.HarnessError("C03 initiator %v sent no OPEN (err=%v)", cs, out.err)
		return
	}
	if cs.Key != "" {
		r.Outcome(fmt.Sprintf("degenerate|init|%s|err=%v", cs.Kind, out.err != nil))
		if out.err == nil {
			// a connection / association was established on a degenerate key: is anything sent usable?
			if cs.Kind != "udp" {
				go out.conn.Write([]byte("C03-PROBE-PAYLOAD"))
				nsWait(func() bool { respond(); return len(dataFrames) > 0 })
			}
			fail("degenerate-key-accepted", fmt.Sprintf("the real initiator returned success for an ACK carrying a degenerate key (%d data frame(s) followed)", len(dataFrames)))
		}
		return
	}
	if out.err != nil {
		fail("honest-ack-refused", out.err.Error())
		return
	}
	if cs.Kind != "udp" {
		go out.conn.Write([]byte("C03-PROBE-PAYLOAD"))
		nsWait(func() bool { respond(); return len(dataFrames) > 0 })
	}
	if len(dataFrames) == 0 || respKey == nil {
		fail("no-data-frame", "initiator emitted no data frame to compare keys on")
		return
	}
	body := dataFrames[0].Payload
	if dataFrames[0].Type == protocol.FrameUDPDatagram {
		if dg, err := protocol.DecodeUDPDatagram(body); err == nil {
			body = dg.Data
		}
	}
	aead, _ := chacha20poly1305.New(respKey[:])
	if len(body) < 28 {
		fail("keys-differ", "first data frame is not sealed")
		return
	}
	if pt, err := aead.Open(nil, body[:12], body[12:], nil); err != nil || string(pt) != "C03-PROBE-PAYLOAD" {
		fail("keys-differ", "the first sealed frame of the real initiator does not open under the key the responder derives")
	}
	if prev, dup := keys[*respKey]; dup {
		fail("key-reused", "same key as tunnel "+prev)
	}
	keys[*respKey] = "init/" + cs.Kind
	r.Nontrivial("init|" + cs.Kind)
}

func TestVerif_C03(t *testing.T) {
	r := vmc.New("C03", "exploration")
	r.Rule = "grid: responder kinds {tcp, forward, udp, file upload/download, shell stream/interactive} x request ids x fresh ephemeral keys (key equality via in-package accessors) + real initiators {DialContext, DialForward, RelayUDPDatagram} against a scripted responder (first sealed frame must open under the responder-side derivation) + every degenerate Curve25519 public key presented to every responder and every initiator; all keys of the run pairwise distinct; non-trivial = honest handshakes completed (distinct by side, kind, request id)"
	r.Assume("ephemeral keys come from crypto/rand (not enumerated); the domain-route dial (dialViaDomainRoute) is not driven separately")
	var rp c03Case
	var rpx c03xCase
	keys := map[[32]byte]string{}
	var other struct {
		Sched   bool   `json:"sched"`    // artefact of the schedule part (derive_sched_test.go, package crypto)
		RaceLog string `json:"race_log"` // artefact of the -race pass
	}
	if r.ReplayInto(&other) && (other.Sched || other.RaceLog != "") {
		// replayed by TestVerif_C03_Derive / not replayable here
		if err := r.Finish(); err != nil {
			t.Fatal(err)
		}
		return
	}
	if r.ReplayInto(&rpx) && rpx.Ext {
		// artefact of the second half (initiators_test.go)
		c03xRun(r, rpx, keys)
		if err := r.Finish(); err != nil {
			t.Fatal(err)
		}
		return
	}
	if r.ReplayInto(&rp) {
		if rp.Side == "responder" {
			c03Responder(r, rp, keys)
		} else {
			c03Initiator(r, rp, keys)
		}
		if err := r.Finish(); err != nil {
			t.Fatal(err)
		}
		return
	}
	rkinds := []string{"tcp", "forward", "udp", "file-upload", "file-download", "shell-stream", "shell-interactive"}
	reqs := []uint64{1, 2, 1 << 32, 1<<63 + 5}
	reps := vmc.Pick(r, 2, 6)
	for _, k := range rkinds {
		for _, q := range reqs {
			for i := 0; i < reps; i++ {
				c03Responder(r, c03Case{Side: "responder", Kind: k, ReqID: q}, keys)
			}
		}
		for _, dk := range c03Degenerate {
			c03Responder(r, c03Case{Side: "responder", Kind: k, ReqID: 7, Key: dk}, keys)
		}
	}
	for _, k := range []string{"tcp", "forward", "udp"} {
		for i := 0; i < reps; i++ {
			c03Initiator(r, c03Case{Side: "initiator", Kind: k}, keys)
		}
		for _, dk := range c03Degenerate {
			c03Initiator(r, c03Case{Side: "initiator", Kind: k, Key: dk}, keys)
		}
	}
	// derivation grid: with the shared secret and both public keys held fixed, tunnels that differ
	// only in the request identifier (incl. only in its high bits), or only in one public key,
	// must get different keys; and both roles derive the same key bytes
	{
		var sh, ip, rp [32]byte
		for i := range sh {
			sh[i], ip[i], rp[i] = byte(i+1), byte(2*i+3), byte(5*i+7)
		}
		ids := []uint64{0, 1, 2, 255, 256, 1 << 16, 1 << 31, 1 << 32, 1<<32 + 1, 1 << 48, 1 << 63, 1<<63 + 1, ^uint64(0)}
		seen := map[[32]byte]string{}
		add := func(label string, k [32]byte) {
			r.Add("evaluations", 1)
			if prev, ok := seen[k]; ok {
				r.Violate("C03/derivation-collision", fmt.Sprintf("DeriveSessionKey gives the same key for %s and %s", prev, label), map[string]string{"a": prev, "b": label})
			}
			seen[k] = label
		}
		for _, id := range ids {
			ki := crypto.DeriveSessionKey(sh, id, ip, rp, true).Key()
			kr := crypto.DeriveSessionKey(sh, id, ip, rp, false).Key()
			if ki != kr {
				r.Violate("C03/derivation-role-dependent", fmt.Sprintf("initiator and responder derive different key bytes for request id %d", id), map[string]uint64{"id": id})
			}
			add(fmt.Sprintf("req=%d", id), ki)
		}
		for bit := 0; bit < 256; bit += 37 {
			ip2, rp2 := ip, rp
			ip2[bit/8] ^= 1 << (bit % 8)
			rp2[bit/8] ^= 1 << (bit % 8)
			add(fmt.Sprintf("initiator-pub-bit%d", bit), crypto.DeriveSessionKey(sh, 1, ip2, rp, true).Key())
			add(fmt.Sprintf("responder-pub-bit%d", bit), crypto.DeriveSessionKey(sh, 1, ip, rp2, true).Key())
		}
		add("pubs-swapped", crypto.DeriveSessionKey(sh, 1, rp, ip, true).Key())
		r.Nontrivial("derivation-grid")
	}
	c03xAll(r, keys)
	r.Info["distinct_session_keys"] = len(keys)
	r.Sample(c03Case{Side: "responder", Kind: "shell-stream", ReqID: 1 << 32})
	r.Sample(c03Case{Side: "initiator", Kind: "udp", Key: c03Degenerate[2]})
	if err := r.Finish(); err != nil {
		t.Fatal(err)
	}
}

// TestVerifRace_C03 is the free-running body of the separate -race pass: the same per-end
// derivation as the schedule part (derive_sched_test.go), four tunnels, both ends of each, eight
// goroutines deriving side by side. Only the race detector's report counts (check.json
// race_state); nothing is asserted here. (race_keep_rewrites: the binary is built from the
// rewritten crypto.go -- the vsched.Step() calls are no-ops outside sched.Run -- because the
// un-rewritten fallback of bin/check would be the /repo file even under --replace; see NOTES.md.)
func TestVerifRace_C03(t *testing.T) {
	type tun struct {
		req                      uint64
		ipriv, ipub, rpriv, rpub [32]byte
	}
	var base [32]byte
	base[0] = 9
	var ts []tun
	for k := 0; k < 4; k++ {
		var x tun
		x.req = uint64(k + 1)
		for i := range x.ipriv {
			x.ipriv[i], x.rpriv[i] = byte((2*k+1)*37+i*11+5), byte((2*k+2)*37+i*11+5)
		}
		x.ipub, _ = crypto.ComputeECDH(x.ipriv, base)
		x.rpub, _ = crypto.ComputeECDH(x.rpriv, base)
		ts = append(ts, x)
	}
	// every round: all goroutines are created first and released together by closing one channel
	// (so that no spawn or WaitGroup operation orders one goroutine's derivations before another's).
	// Three bodies: the whole per-end derivation as the handlers run it; DeriveSessionKey alone on
	// shared secrets computed beforehand; ComputeECDH alone. The single-function bodies keep two
	// goroutines' accesses to the same state close together: one X25519 ladder is > 10^5 instrumented
	// memory accesses, more than the detector's per-goroutine history, and a report whose earlier
	// stack can no longer be restored is dropped.
	type end struct {
		x         tun
		initiator bool
		shared    [32]byte
	}
	var ends []end
	for _, x := range ts {
		for _, initiator := range []bool{true, false} {
			e := end{x: x, initiator: initiator}
			if initiator {
				e.shared, _ = crypto.ComputeECDH(x.ipriv, x.rpub)
			} else {
				e.shared, _ = crypto.ComputeECDH(x.rpriv, x.ipub)
			}
			ends = append(ends, e)
		}
	}
	bodies := []struct {
		rounds, calls int
		f             func(e end)
	}{
		{10, 10, func(e end) {
			priv, pub := e.x.rpriv, e.x.ipub
			if e.initiator {
				priv, pub = e.x.ipriv, e.x.rpub
			}
			if shared, err := crypto.ComputeECDH(priv, pub); err == nil {
				crypto.DeriveSessionKey(shared, e.x.req, e.x.ipub, e.x.rpub, e.initiator)
			}
		}},
		{20, 50, func(e end) { crypto.DeriveSessionKey(e.shared, e.x.req, e.x.ipub, e.x.rpub, e.initiator) }},
		{20, 5, func(e end) {
			priv, pub := e.x.rpriv, e.x.ipub
			if e.initiator {
				priv, pub = e.x.ipriv, e.x.rpub
			}
			crypto.ComputeECDH(priv, pub)
		}},
	}
	for _, b := range bodies {
		for it := 0; it < b.rounds; it++ {
			var wg sync.WaitGroup
			start := make(chan struct{})
			wg.Add(len(ends))
			for _, e := range ends {
				e := e
				go func() {
					defer wg.Done()
					<-start
					for j := 0; j < b.calls; j++ {
						b.f(e)
					}
				}()
			}
			close(start)
			wg.Wait()
		}
	}
}
