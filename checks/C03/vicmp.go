//go:build verif

// Package vicmp is the ICMP socket seam of check C03: internal/icmp/socket.go is mechanically
// rewritten (icmp.ListenPacket -> vicmp.ListenPacket, icmp.PacketConn -> vicmp.PacketConn) so
// that the exit-side icmp.Handler can be driven in a sandbox that has no ICMP sockets
// (net.ipv4.ping_group_range = "1 0": socket: permission denied). The fake is a loopback
// responder: every echo request written to it is recorded and answered with the matching echo
// reply, which the next ReadFrom returns. Nothing else of internal/icmp is replaced.
package vicmp

import (
	"errors"
	"net"
	"os"
	"sync"
	"time"

	"golang.org/x/net/icmp"
	"golang.org/x/net/ipv4"
	"golang.org/x/net/ipv6"
)

// Sent is one echo request that the code under test wrote to a fake socket.
type Sent struct {
	Dst  string
	ID   int
	Seq  int
	Data []byte
}

type PacketConn struct {
	v6 bool

	mu       sync.Mutex
	closed   bool
	deadline time.Time
	sent     []Sent
	replies  chan reply
	done     chan struct{}
}

type reply struct {
	b    []byte
	from net.Addr
}

var (
	regMu sync.Mutex
	conns []*PacketConn
)

// Reset forgets every socket opened so far.
func Reset() {
	regMu.Lock()
	conns = nil
	regMu.Unlock()
}

// Conns returns the sockets opened since the last Reset, in opening order.
func Conns() []*PacketConn {
	regMu.Lock()
	defer regMu.Unlock()
	return append([]*PacketConn(nil), conns...)
}

// ListenPacket stands in for icmp.ListenPacket("udp4"|"udp6", addr).
func ListenPacket(network, address string) (*PacketConn, error) {
	c := &PacketConn{v6: network == "udp6" || network == "ip6:ipv6-icmp", replies: make(chan reply, 1024), done: make(chan struct{})}
	regMu.Lock()
	conns = append(conns, c)
	regMu.Unlock()
	return c, nil
}

// Sent returns the echo requests written so far.
func (c *PacketConn) Sent() []Sent {
	c.mu.Lock()
	defer c.mu.Unlock()
	return append([]Sent(nil), c.sent...)
}

// Closed reports whether the code under test closed the socket.
func (c *PacketConn) Closed() bool {
	c.mu.Lock()
	defer c.mu.Unlock()
	return c.closed
}

func (c *PacketConn) Close() error {
	c.mu.Lock()
	defer c.mu.Unlock()
	if c.closed {
		return errors.New("vicmp: use of closed socket")
	}
	c.closed = true
	close(c.done)
	return nil
}

func (c *PacketConn) SetReadDeadline(t time.Time) error {
	c.mu.Lock()
	c.deadline = t
	c.mu.Unlock()
	return nil
}

func (c *PacketConn) WriteTo(b []byte, dst net.Addr) (int, error) {
	c.mu.Lock()
	if c.closed {
		c.mu.Unlock()
		return 0, errors.New("vicmp: use of closed socket")
	}
	c.mu.Unlock()
	proto, replyType := 1, icmp.Type(ipv4.ICMPTypeEchoReply)
	if c.v6 {
		proto, replyType = 58, icmp.Type(ipv6.ICMPTypeEchoReply)
	}
	m, err := icmp.ParseMessage(proto, b)
	if err != nil {
		return 0, err
	}
	e, ok := m.Body.(*icmp.Echo)
	if !ok {
		return len(b), nil
	}
	c.mu.Lock()
	c.sent = append(c.sent, Sent{Dst: dst.String(), ID: e.ID, Seq: e.Seq, Data: append([]byte(nil), e.Data...)})
	c.mu.Unlock()
	rb, err := (&icmp.Message{Type: replyType, Code: 0, Body: &icmp.Echo{ID: e.ID, Seq: e.Seq, Data: e.Data}}).Marshal(nil)
	if err != nil {
		return 0, err
	}
	select {
	case c.replies <- reply{rb, dst}:
	default:
	}
	return len(b), nil
}

func (c *PacketConn) ReadFrom(b []byte) (int, net.Addr, error) {
	c.mu.Lock()
	dl := c.deadline
	c.mu.Unlock()
	var timeout <-chan time.Time
	if !dl.IsZero() {
		t := time.NewTimer(time.Until(dl))
		defer t.Stop()
		timeout = t.C
	}
	select {
	case r := <-c.replies:
		return copy(b, r.b), r.from, nil
	case <-c.done:
		return 0, nil, errors.New("vicmp: use of closed socket")
	case <-timeout:
		return 0, nil, os.ErrDeadlineExceeded
	}
}
