//go:build verif

package config

// C37 -- configuration variable expansion is single-pass and follows the documented forms.
//
// Engine E5: every text of length 0..L over the alphabet {$ { } : - A b _ 1 space},
// shortest first, plus a token-level grid (affix x documented form x affix, form x form, with
// longer names and non-empty defaults) x a fixed list of environments (the process environment is cleared, so
// the harness owns every variable). The real expandEnvVars is called on each pair.
//
// Oracle -- exactly the clauses of the statement:
//  (1) a text without '$' is returned unchanged                                 [all texts]
//  (2) values substituted from the environment are never expanded again: the
//      output equals the output obtained with the same variables set to opaque
//      '$'-free tokens, with the tokens replaced by the real values afterwards
//      (differential on the real code; independent of any parser)               [all texts,
//      environments whose values contain '$']
//  (3) on WELL-FORMED texts -- every '$' either begins one of the three documented forms
//      ($NAME maximal identifier, ${NAME}, ${NAME:-default}: the text between the braces up to
//      the first '}' -- a name that is not an identifier names a variable nobody can set, the
//      default is taken as written -- provided that inner text cannot itself begin a reference)
//      or cannot begin any form (followed by end of
//      text or by a character other than '{', '$' and an identifier start) -- the output
//      equals the token-by-token expectation: set => value (an empty value is a value),
//      unset + default => default, unset without default => the reference as written,
//      everything else => itself. The first diverging token names the clause.
// Texts with undocumented shapes ("${}", "${A b}", "${${A}}", "$$A", "${A" ...) are
// compared against a left-to-right scanner that mirrors the regular expression's reading;
// a divergence there is only counted (undocumented_form_divergence) because the
// statement does not define those shapes.

import (
	"fmt"
	"os"
	"strings"
	"testing"

	"github.com/postalsys/muti-metroo/internal/vmc"
)

type c37Env struct {
	label string
	vars  [][2]string
}

type c37Tok struct {
	kind string // literal, lone-dollar, bare-set, bare-unset, brace-set, brace-unset, default-set, default-unset
	src  string
	want string
}

func c37IdentStart(c byte) bool { return c == '_' || (c >= 'A' && c <= 'Z') || (c >= 'a' && c <= 'z') }
func c37IdentChar(c byte) bool  { return c37IdentStart(c) || (c >= '0' && c <= '9') }
func c37IsIdent(s string) bool {
	if s == "" || !c37IdentStart(s[0]) {
		return false
	}
	for i := 1; i < len(s); i++ {
		if !c37IdentChar(s[i]) {
			return false
		}
	}
	return true
}

// c37NestedRef reports whether the inner text of a braced reference could itself begin a reference.
func c37NestedRef(inner string) bool {
	for i := 0; i+1 < len(inner); i++ {
		if inner[i] == '$' && (inner[i+1] == '{' || c37IdentStart(inner[i+1])) {
			return true
		}
	}
	return false
}

// c37Scan is the independent left-to-right reference. It returns the expected tokens and
// whether the text is well-formed in the sense of clause (3). For texts that are not
// well-formed the tokens mirror the regular expression's reading (any non-empty run of
// non-'}' characters between "${" and the first '}' is a name).
func c37Scan(s string, env map[string]string) (toks []c37Tok, wellFormed bool) {
	wellFormed = true
	lit := func(from, to int) {
		if to > from {
			toks = append(toks, c37Tok{"literal", s[from:to], s[from:to]})
		}
	}
	i, start := 0, 0
	for i < len(s) {
		if s[i] != '$' {
			i++
			continue
		}
		// s[i] == '$'
		if i+1 < len(s) && s[i+1] == '{' {
			end := strings.IndexByte(s[i+2:], '}')
			if end > 0 { // non-empty content
				content := s[i+2 : i+2+end]
				src := s[i : i+2+end+1]
				lit(start, i)
				if k := strings.Index(content, ":-"); k >= 0 {
					name, def := content[:k], content[k+2:]
					// The default is "taken as written" up to the closing brace; a name that is not an
					// identifier names a variable that cannot be set. The token stays in the judged class
					// unless its inner text could itself START a reference ('$' followed by '{' or an
					// identifier start), where the statement does not say which reading wins.
					if c37NestedRef(content) {
						wellFormed = false
					}
					if v, ok := env[name]; ok {
						toks = append(toks, c37Tok{"default-set", src, v})
					} else {
						toks = append(toks, c37Tok{"default-unset", src, def})
					}
				} else {
					if c37NestedRef(content) {
						wellFormed = false
					}
					if v, ok := env[content]; ok {
						toks = append(toks, c37Tok{"brace-set", src, v})
					} else {
						toks = append(toks, c37Tok{"brace-unset", src, src})
					}
				}
				i += 2 + end + 1
				start = i
				continue
			}
			// "${}" or unterminated "${": not a documented form
			wellFormed = false
			lit(start, i)
			toks = append(toks, c37Tok{"lone-dollar", "$", "$"})
			i++
			start = i
			continue
		}
		if i+1 < len(s) && c37IdentStart(s[i+1]) {
			j := i + 2
			for j < len(s) && c37IdentChar(s[j]) {
				j++
			}
			name := s[i+1 : j]
			lit(start, i)
			if v, ok := env[name]; ok {
				toks = append(toks, c37Tok{"bare-set", s[i:j], v})
			} else {
				toks = append(toks, c37Tok{"bare-unset", s[i:j], s[i:j]})
			}
			i = j
			start = i
			continue
		}
		// a '$' that cannot begin a form
		if i+1 < len(s) && s[i+1] == '$' {
			wellFormed = false // "$$" is an escape in some dialects; not documented here
		}
		lit(start, i)
		toks = append(toks, c37Tok{"lone-dollar", "$", "$"})
		i++
		start = i
	}
	lit(start, len(s))
	return
}

func c37Clause(kind string) string {
	switch kind {
	case "literal":
		return "C37/plain-text-changed"
	case "lone-dollar":
		return "C37/lone-dollar-changed"
	case "bare-set":
		return "C37/set-variable-not-replaced/$VAR"
	case "brace-set":
		return "C37/set-variable-not-replaced/${VAR}"
	case "default-set":
		return "C37/set-variable-not-replaced/${VAR:-default}"
	case "bare-unset":
		return "C37/unset-not-left-as-written/$VAR"
	case "brace-unset":
		return "C37/unset-not-left-as-written/${VAR}"
	case "default-unset":
		return "C37/unset-default-not-taken"
	}
	return "C37/?"
}

func c37Apply(e c37Env) map[string]string {
	os.Clearenv()
	m := map[string]string{}
	for _, kv := range e.vars {
		os.Setenv(kv[0], kv[1])
		m[kv[0]] = kv[1]
	}
	return m
}

type c37Replay struct {
	Text string `json:"text"`
	Env  string `json:"env"`
}

func TestVerif_C37(t *testing.T) {
	r := vmc.New("C37", "exploration")
	r.Rule = "every text of length 0..L over {$,{,},:,-,A,b,_,1,space}, plus the token-level grid (affix x form x affix, form x form), x every listed environment through the real expandEnvVars; non-trivial = the text contains at least one reference in a documented or regex-readable form (bare/brace/default, set or unset); distinct = (environment, sequence of token kinds)"
	r.Assume("the harness clears the process environment and sets only the listed variables; os.LookupEnv is trusted")
	r.Assume("undocumented shapes (\"${}\", names that are not identifiers, defaults containing '$' or braces, \"$$\") are compared with a scanner mirroring the regex but a divergence there is only counted, since the statement does not define them")

	saved := os.Environ()
	restore := func() { // must run before r.Finish(): the engine reads VERIF_OUT from the environment
		os.Clearenv()
		for _, kv := range saved {
			if k, v, ok := strings.Cut(kv, "="); ok && k != "" {
				os.Setenv(k, v)
			}
		}
	}
	defer restore()

	envs := []c37Env{
		{"none-set", nil},
		{"A=x", [][2]string{{"A", "x"}}},
		{"A=empty", [][2]string{{"A", ""}}},
		{"A=$b,b=y", [][2]string{{"A", "$b"}, {"b", "y"}}},
		{"A=${A}", [][2]string{{"A", "${A}"}}},
		{"A=${b:-q}", [][2]string{{"A", "${b:-q}"}}},
		{"A=x,Ab=z", [][2]string{{"A", "x"}, {"Ab", "z"}}},
	}
	alpha := []byte{'$', '{', '}', ':', '-', 'A', 'b', '_', '1', ' '}
	maxLen := vmc.Pick(r, 6, 7)
	r.Info["alphabet"] = string(alpha)
	r.Info["max_text_len"] = maxLen
	r.Info["environments"] = len(envs)
	r.SetMax("text_len", 0)

	opaqueTok := func(i int) string { return string([]byte{0x01, byte('0' + i), 0x02}) }

	check := func(text string, e c37Env, envMap map[string]string) {
		r.Add("evaluations", 1)
		got := expandEnvVars(text)
		// (1)
		if !strings.Contains(text, "$") {
			if got != text {
				r.Violate("C37/no-dollar-text-changed", fmt.Sprintf("text %q without '$' became %q (env %s)", text, got, e.label), c37Replay{text, e.label})
			}
			r.Add("texts_without_dollar", 1)
			return
		}
		toks, wf := c37Scan(text, envMap)
		var want strings.Builder
		kinds := make([]string, 0, len(toks))
		refs := 0
		for _, tk := range toks {
			want.WriteString(tk.want)
			kinds = append(kinds, tk.kind)
			if tk.kind != "literal" && tk.kind != "lone-dollar" {
				refs++
			}
		}
		if refs > 0 {
			r.Add("nontrivial_evaluations", 1)
			r.Nontrivial(e.label + "|" + strings.Join(kinds, ","))
		}
		if wf {
			r.Add("wellformed_texts", 1)
			if got != want.String() {
				// name the clause: the first token that, expanded on its own, does not give its expected piece
				fp := "C37/context-dependent-expansion"
				for _, tk := range toks {
					if expandEnvVars(tk.src) != tk.want {
						fp = c37Clause(tk.kind)
						break
					}
				}
				r.Violate(fp, fmt.Sprintf("expandEnvVars(%q) with %s = %q, the documented forms give %q", text, e.label, got, want.String()), c37Replay{text, e.label})
			}
		} else {
			r.Add("undocumented_shape_texts", 1)
			if got != want.String() {
				r.Add("undocumented_form_divergence", 1)
			}
		}
		changed := "unchanged"
		if got != text {
			changed = "changed"
		}
		r.Outcome(e.label + "|" + changed + "|" + fmt.Sprint(wf))
		// (2) single pass: only where a value could be expanded again
		hasDollarValue := false
		for _, kv := range e.vars {
			if strings.Contains(kv[1], "$") {
				hasDollarValue = true
			}
		}
		if hasDollarValue && refs > 0 {
			for i, kv := range e.vars {
				os.Setenv(kv[0], opaqueTok(i))
			}
			twin := expandEnvVars(text)
			for _, kv := range e.vars {
				os.Setenv(kv[0], kv[1])
			}
			pairs := make([]string, 0, 2*len(e.vars))
			for i, kv := range e.vars {
				pairs = append(pairs, opaqueTok(i), kv[1])
			}
			wantSingle := strings.NewReplacer(pairs...).Replace(twin)
			r.Add("single_pass_differentials", 1)
			if got != wantSingle {
				r.Violate("C37/substituted-value-expanded-again/"+e.label, fmt.Sprintf("expandEnvVars(%q) with %s = %q; with opaque values and late substitution it is %q: a substituted value was scanned again", text, e.label, got, wantSingle), c37Replay{text, e.label})
			}
		}
		if refs > 0 && len(text) <= 4 && e.label != "none-set" {
			r.Sample(map[string]string{"text": text, "env": e.label, "output": got, "tokens": strings.Join(kinds, ",")})
		}
	}

	var rp c37Replay
	if r.ReplayInto(&rp) {
		for _, e := range envs {
			if e.label == rp.Env {
				m := c37Apply(e)
				check(rp.Text, e, m)
			}
		}
		restore()
		if err := r.Finish(); err != nil {
			t.Fatal(err)
		}
		return
	}

	buf := make([]byte, maxLen)
	var idx int64
outer:
	for l := 0; l <= maxLen; l++ {
		total := int64(1)
		for k := 0; k < l; k++ {
			total *= int64(len(alpha))
		}
		for _, e := range envs {
			m := c37Apply(e)
			for n := int64(0); n < total; n++ {
				if (idx+n)%int64(r.Shards) != int64(r.Shard) {
					continue
				}
				if n&0xffff == 0 && r.Expired() {
					r.Info["stopped_in_text_len"] = l
					break outer
				}
				x := n
				for k := l - 1; k >= 0; k-- {
					buf[k] = alpha[x%int64(len(alpha))]
					x /= int64(len(alpha))
				}
				check(string(buf[:l]), e, m)
			}
		}
		idx += total
		r.SetMax("text_len", int64(l))
	}
	// Part 2 (shard 0): token-level grid -- the documented forms with names and defaults longer than the
	// character grid reaches: prefix x form x suffix and form x form, names {A,b,Ab,_,A1},
	// defaults {"", b, -, :, " ", 1, A, "x y"}.
	if r.Shard == 0 {
		names := []string{"A", "b", "Ab", "_", "A1", "{A", "A{", "-A", "A b"}
		defaults := []string{"", "b", "-", ":", " ", "1", "A", "x y", "{", "US$", "{b", "b{", "$", "a$", "{{"}
		var forms []string
		for _, n := range names {
			forms = append(forms, "$"+n, "${"+n+"}")
			for _, d := range defaults {
				forms = append(forms, "${"+n+":-"+d+"}")
			}
		}
		affixes := []string{""}
		for _, c := range alpha {
			affixes = append(affixes, string(c))
		}
		for _, e := range envs {
			m := c37Apply(e)
			for _, f := range forms {
				for _, pre := range affixes {
					for _, suf := range affixes {
						check(pre+f+suf, e, m)
						r.Add("token_grid_texts", 1)
					}
				}
			}
			for _, f := range forms {
				for _, g := range forms {
					check(f+g, e, m)
					check(f+" "+g, e, m)
					r.Add("token_grid_texts", 2)
				}
			}
		}
	}

	restore()
	if err := r.Finish(); err != nil {
		t.Fatal(err)
	}
}
