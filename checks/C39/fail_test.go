//go:build verif

package agent

// C39, part F -- a relay whose write to the next hop FAILS.
//
// The delivery part (harness_test.go) has reliable links: a relay's forward always succeeds. Here the
// directed link T->X1 can BREAK: from the event "fail" on, every write T makes on its (still registered)
// connection to X1 returns an error -- peerMgr.GetPeer(X1) still returns the connection, SendToPeer fails;
// the state of a relay between a link dying and its read loop noticing. Frames written before the event
// stay deliverable, the reverse direction X1->T keeps working. The relay then has to answer the requester
// itself, under the REQUESTER's id, while other requests of the same requester are outstanding through it.
//
// Enumerated (stateless DFS, no bound): every interleaving of
//
//	issue the next request of the scenario | the "fail" event (once) | deliver the head frame of one link
//
// for scenarios of 1-2 (thorough 3) requests through T to X1 (behind the link that breaks) and X2 (behind a
// healthy link), in both issue orders, with the relay also originating, and with the requester's request
// counter AHEAD of the relay's by k = 0..3 (k warm-up requests A->T answered before the enumeration starts),
// so that the ids a requester uses coincide with the relay-local ids of other requests in every way the
// counters allow. Every request carries a distinct tag in its data payload (the real forwarding path
// preserves it), so the harness knows exactly WHICH request the failing link refused.
//
// Oracle, at quiescence, per caller: if the forward of ITS request was refused by the broken link it has
// received a failure (a response with Success=false, or the send error when the relay is the caller) --
// not silence, not somebody's status; otherwise it has received a successful response whose payload names
// the agent it targeted -- in particular not the error that belongs to another request.

import (
	"context"
	"encoding/json"
	"errors"
	"fmt"
	"strings"
	"sync"

	"github.com/postalsys/muti-metroo/internal/peer"
	"github.com/postalsys/muti-metroo/internal/protocol"
	"github.com/postalsys/muti-metroo/internal/vmc"
)

type c39FailScenario struct {
	Kind    string   `json:"kind"` // "fail-link": distinguishes the replay artefact from part D's
	Name    string   `json:"name"`
	Warm    int      `json:"warm_up_requests"` // A->T status requests completed beforehand: A's counter = Warm
	Reqs    []c39Req `json:"reqs"`
	Choices []int    `json:"choices,omitempty"`
}

const (
	c39A, c39B, c39T, c39X1, c39X2 = 0, 1, 2, 3, 4
)

// c39FailSink is the writer under T's connection to X1: the netsim sink until the harness breaks the link.
type c39FailSink struct {
	mu      sync.Mutex
	inner   *nsSink
	broken  bool
	refused [][]byte // frames whose write failed
}

var errC39BrokenPipe = errors.New("write: broken pipe")

func (s *c39FailSink) Write(p []byte) (int, error) {
	s.mu.Lock()
	if s.broken {
		s.refused = append(s.refused, append([]byte(nil), p...))
		s.mu.Unlock()
		return 0, errC39BrokenPipe
	}
	s.mu.Unlock()
	return s.inner.Write(p)
}

func (s *c39FailSink) fail() {
	s.mu.Lock()
	s.broken = true
	s.mu.Unlock()
}

// refusedTags returns the tags of the control requests the broken link refused.
func (s *c39FailSink) refusedTags() map[string]int {
	s.mu.Lock()
	defer s.mu.Unlock()
	out := map[string]int{}
	for _, b := range s.refused {
		f, err := protocol.Decode(b)
		if err != nil || f.Type != protocol.FrameControlRequest {
			continue
		}
		if rq, err := protocol.DecodeControlRequest(f.Payload); err == nil {
			out[string(rq.Data)]++
		}
	}
	return out
}

func c39Tag(i int) string { return fmt.Sprintf("req-%d", i) }

func c39FailScenarios(thorough bool) []c39FailScenario {
	base := []struct {
		name string
		reqs []c39Req
		deep bool
	}{
		{"one", []c39Req{{c39A, c39X1}}, false},
		{"x1-then-x2", []c39Req{{c39A, c39X1}, {c39A, c39X2}}, false},
		{"x2-then-x1", []c39Req{{c39A, c39X2}, {c39A, c39X1}}, false},
		{"relay-asks-x2-then-a-asks-x1", []c39Req{{c39T, c39X2}, {c39A, c39X1}}, false},
		{"a-asks-x2-then-relay-asks-x1", []c39Req{{c39A, c39X2}, {c39T, c39X1}}, false},
		{"two-requesters", []c39Req{{c39B, c39X2}, {c39A, c39X1}}, true},
		{"x2-then-x1-twice", []c39Req{{c39A, c39X2}, {c39A, c39X1}, {c39A, c39X1}}, true},
		{"x2-x1-x2", []c39Req{{c39A, c39X2}, {c39A, c39X1}, {c39A, c39X2}}, true},
	}
	var out []c39FailScenario
	for _, b := range base {
		if b.deep && !thorough {
			continue
		}
		for k := 0; k <= 3; k++ {
			out = append(out, c39FailScenario{Kind: "fail-link", Name: fmt.Sprintf("%s/ahead=%d", b.name, k), Warm: k, Reqs: b.reqs})
		}
	}
	return out
}

func c39RunFail(r *vmc.Result, sc c39FailScenario, c *vmc.Chooser) {
	nt, err := nsNew(5, nil)
	if err != nil {
		r.HarnessError("C39 build: %v", err)
		return
	}
	defer nt.close()
	for _, e := range [][2]int{{c39A, c39T}, {c39B, c39T}, {c39T, c39X2}} {
		nt.connect(e[0], e[1])
	}
	// the link T<->X1 as nsNet.connect builds it, except that T's writer can be made to fail
	sink := &c39FailSink{inner: &nsSink{nt, c39T, c39X1}}
	ca := peer.VerifNewConnection(nt.ids[c39T], nt.ids[c39X1], true, sink)
	cb := peer.VerifNewConnection(nt.ids[c39X1], nt.ids[c39T], false, &nsSink{nt, c39X1, c39T})
	nt.conn[[2]int{c39T, c39X1}] = ca
	nt.conn[[2]int{c39X1, c39T}] = cb
	if !nt.agents[c39T].peerMgr.VerifRegister(ca) || !nt.agents[c39X1].peerMgr.VerifRegister(cb) {
		r.HarnessError("C39 fail part: link T-X1 not registered")
		return
	}
	for i := 0; i < 5; i++ {
		nt.agents[i].flooder.AnnounceLocalRoutes()
	}
	nt.run(nil, 10000)

	ctx, cancel := context.WithCancel(context.Background())
	defer cancel()
	// warm-up: A asks its direct peer T, k times, each answered before the next
	for w := 0; w < sc.Warm; w++ {
		done := make(chan error, 1)
		before := nt.sentLen()
		go func() {
			resp, err := nt.agents[c39A].SendControlRequest(ctx, nt.ids[c39T], protocol.ControlTypeStatus)
			if err == nil && (resp == nil || !resp.Success) {
				err = fmt.Errorf("warm-up answered with a failure")
			}
			done <- err
		}()
		if !nsWait(func() bool { return nt.sentLen() > before || len(done) > 0 }) {
			r.HarnessError("C39 fail part: warm-up request %d never sent", w)
			return
		}
		nt.run(nil, 100) // request to T, T's own answer back to A
		if !nsWait(func() bool { return len(done) > 0 }) {
			r.HarnessError("C39 fail part: warm-up request %d not answered", w)
			return
		}
		if err := <-done; err != nil {
			r.HarnessError("C39 fail part: warm-up request %d: %v", w, err)
			return
		}
	}

	results := make([]c39Result, len(sc.Reqs))
	var mu sync.Mutex
	var wg sync.WaitGroup
	issue := func(i int) bool {
		rq := sc.Reqs[i]
		before := nt.sentLen()
		wg.Add(1)
		go func() {
			defer wg.Done()
			resp, err := nt.agents[rq.From].SendControlRequestWithData(ctx, nt.ids[rq.To], protocol.ControlTypeStatus, []byte(c39Tag(i)))
			mu.Lock()
			results[i] = c39Result{resp, err, true}
			mu.Unlock()
		}()
		return nsWait(func() bool {
			mu.Lock()
			d := results[i].done
			mu.Unlock()
			return nt.sentLen() > before || d
		})
	}
	issued, failed := 0, false
	var trace []string
	for steps := 0; steps < 1000; steps++ {
		p := nt.pending()
		// enabled events: the next issue, the deliveries (sorted by link), the fault
		type ev struct {
			kind string
			link [2]int
		}
		var evs []ev
		if issued < len(sc.Reqs) {
			evs = append(evs, ev{kind: "issue"})
		}
		for _, l := range p {
			evs = append(evs, ev{kind: "deliver", link: l})
		}
		if !failed {
			evs = append(evs, ev{kind: "fail"})
		}
		if len(p) == 0 && issued == len(sc.Reqs) {
			// nothing left but (possibly) the fault, which nobody would observe any more
			break
		}
		k := 0
		if len(evs) > 1 {
			k = c.Choose(len(evs), 0, "next")
		}
		switch e := evs[k]; e.kind {
		case "issue":
			if !issue(issued) {
				r.HarnessError("C39 fail part: request %d never sent", issued)
				return
			}
			trace = append(trace, fmt.Sprintf("issue%d", issued))
			issued++
		case "fail":
			sink.fail()
			failed = true
			trace = append(trace, "FAIL(T->X1)")
		case "deliver":
			nt.deliver(e.link[0], e.link[1])
			trace = append(trace, fmt.Sprintf("n%d>n%d", e.link[0], e.link[1]))
		}
		// a delivered response (or a refused send) wakes its caller asynchronously; let it return before
		// the next choice so that executions are deterministic
		nsWait(func() bool {
			mu.Lock()
			defer mu.Unlock()
			return c39Pending(nt) == c39WaitingIssued(results, issued)
		})
	}
	cancel()
	wg.Wait()

	rep := func() any { s := sc; s.Choices = c.Choices(); return s }
	refused := sink.refusedTags()
	// scenario family without the counter offset: part of the fingerprint together with the clause
	fam := sc.Name
	if i := strings.LastIndex(fam, "/"); i >= 0 {
		fam = fam[:i]
	}
	var outcome []string
	for i, rq := range sc.Reqs {
		res := results[i]
		wasRefused := refused[c39Tag(i)] > 0
		// classify what the caller got
		got, who := "none", -1
		var detail string
		switch {
		case res.resp != nil && res.resp.Success:
			var st struct {
				AgentID string `json:"agent_id"`
			}
			json.Unmarshal(res.resp.Data, &st)
			who = nt.idxFromString(st.AgentID)
			got, detail = "status", fmt.Sprintf("the status of n%d", who)
		case res.resp != nil:
			got, detail = "error", fmt.Sprintf("the failure response %q", string(res.resp.Data))
		case res.err != nil && !errors.Is(res.err, context.Canceled):
			got, detail = "error", fmt.Sprintf("the send error %q", res.err.Error())
		default:
			detail = "nothing (still waiting when every frame had been delivered)"
		}
		outcome = append(outcome, fmt.Sprintf("%d:%s:n%d:refused=%v", i, got, who, wasRefused))
		what := fmt.Sprintf("scenario %s (requester counter ahead by %d), events %v: request %d (n%d asks n%d, tag %s, forward refused by the broken link: %v) received %s",
			sc.Name, sc.Warm, trace, i, rq.From, rq.To, c39Tag(i), wasRefused, detail)
		switch {
		case wasRefused && got == "none":
			r.Violate("C39/failed-forward/no-error-to-its-caller/"+fam, what, rep())
		case wasRefused && got == "status":
			r.Violate("C39/failed-forward/answered-with-a-status/"+fam, what, rep())
		case !wasRefused && got == "error":
			r.Violate("C39/failed-forward/error-delivered-to-other-request/"+fam, what, rep())
		case !wasRefused && got == "none":
			r.Violate("C39/no-response/fail-link/"+fam, what, rep())
		case !wasRefused && who != rq.To:
			r.Violate("C39/wrong-answer/fail-link/"+fam, what, rep())
		}
	}
	r.Outcome("F:" + fam + "|" + strings.Join(outcome, ","))
	if len(refused) > 0 && len(sc.Reqs) > 1 {
		// non-trivial: a forward was refused while another request was part of the execution
		r.Nontrivial("F:" + sc.Name + fmt.Sprint(c.Choices()))
	}
}

// c39FailPart runs part F and returns the number of executions.
func c39FailPart(r *vmc.Result) {
	r.Info["fail_part"] = map[string]any{"broken_link": "n2->n3 (relay T -> target X1), writes fail from the fault event on", "requester_counter_ahead_by": []int{0, 1, 2, 3}}
	sampled := 0
	for _, sc := range c39FailScenarios(r.Thorough()) {
		sc := sc
		if r.Expired() {
			return
		}
		st := vmc.Explore(r, func(c *vmc.Chooser) { c39RunFail(r, sc, c) }, vmc.DFSOpts{Bound: -1})
		r.Add("evaluations", st.Executions)
		r.Add("fail_link_executions", st.Executions)
		r.Add("states", st.Executions)
		r.Add("transitions", st.Points)
		r.Add("traces_validated_against_impl", st.Executions)
		if sc.Warm == 1 && sampled < 3 {
			sampled++
			r.Sample(map[string]any{"part": "fail-link", "scenario": sc.Name, "requests": sc.Reqs, "interleavings": st.Executions})
		}
	}
}
