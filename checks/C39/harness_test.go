//go:build verif

package agent

// C39 -- control responses reach only the agent that asked.
//
// Engine E2 (netsim): real agents A, B (requesters), T (transit, also a requester in one variant),
// X1, X2 (targets) in a star around T, routes converged by real flooding first. Each requester
// calls the real SendControlRequest (own goroutine, blocked on its response channel; the driver
// proceeds once the request frame has been written: count barrier). Every request therefore carries
// that agent's own request id 1 -- the collision the statement quantifies over. ALL interleavings of
// the request and response deliveries are enumerated (stateless DFS over the choice of the next
// link to deliver from). Oracle, when the mesh is quiescent: every caller has received exactly one
// response and its payload names the agent that caller targeted; nobody received a response to a
// request it did not issue.

import (
	"context"
	"encoding/json"
	"fmt"
	"strings"
	"sync"
	"testing"

	"github.com/postalsys/muti-metroo/internal/protocol"
	"github.com/postalsys/muti-metroo/internal/vmc"
)

type c39Req struct {
	From, To int
}

type c39Scenario struct {
	Name    string   `json:"name"`
	Reqs    []c39Req `json:"reqs"`
	Choices []int    `json:"choices,omitempty"`
}

var c39Scenarios = []c39Scenario{
	{Name: "single", Reqs: []c39Req{{0, 3}}},
	{Name: "two-requesters-two-targets", Reqs: []c39Req{{0, 3}, {1, 4}}},
	{Name: "two-requesters-one-target", Reqs: []c39Req{{0, 3}, {1, 3}}},
	{Name: "transit-also-requests", Reqs: []c39Req{{0, 3}, {2, 4}}},
	{Name: "transit-also-requests-same-target", Reqs: []c39Req{{0, 3}, {2, 3}}},
	{Name: "three-requesters", Reqs: []c39Req{{0, 3}, {1, 4}, {2, 3}}},
}

type c39Result struct {
	resp *protocol.ControlResponse
	err  error
	done bool
}

func c39Run(r *vmc.Result, sc c39Scenario, c *vmc.Chooser) {
	nt, err := nsNew(5, nil)
	if err != nil {
		r.HarnessError("C39 build: %v", err)
		return
	}
	defer nt.close()
	for _, e := range [][2]int{{0, 2}, {1, 2}, {2, 3}, {2, 4}} {
		nt.connect(e[0], e[1])
	}
	// converge presence routes
	for i := 0; i < 5; i++ {
		nt.agents[i].flooder.AnnounceLocalRoutes()
	}
	nt.run(nil, 10000)
	ctx, cancel := context.WithCancel(context.Background())
	defer cancel()
	results := make([]c39Result, len(sc.Reqs))
	var mu sync.Mutex
	var wg sync.WaitGroup
	issue := func(i int) bool {
		rq := sc.Reqs[i]
		before := nt.sentLen()
		wg.Add(1)
		go func() {
			defer wg.Done()
			resp, err := nt.agents[rq.From].SendControlRequest(ctx, nt.ids[rq.To], protocol.ControlTypeStatus)
			mu.Lock()
			results[i] = c39Result{resp, err, true}
			mu.Unlock()
		}()
		// the request frame is written before the caller blocks
		return nsWait(func() bool {
			mu.Lock()
			d := results[i].done
			mu.Unlock()
			return nt.sentLen() > before || d
		})
	}
	// every interleaving of "requester i issues its request" (in scenario order per requester) and
	// "deliver the head frame of link l": a request may be issued while others are already in flight
	issued := 0
	for steps := 0; steps < 1000; steps++ {
		p := nt.pending()
		n := len(p)
		if issued < len(sc.Reqs) {
			n++
		}
		if n == 0 {
			break
		}
		k := 0
		if n > 1 {
			k = c.Choose(n, 0, "next")
		}
		if issued < len(sc.Reqs) && k == 0 {
			if !issue(issued) {
				r.HarnessError("C39: request %d never sent", issued)
				return
			}
			issued++
			continue
		}
		if issued < len(sc.Reqs) {
			k--
		}
		nt.deliver(p[k][0], p[k][1])
		// a delivered response wakes its caller asynchronously; let it return before the next
		// choice so that executions are deterministic
		nsWait(func() bool {
			mu.Lock()
			defer mu.Unlock()
			return c39Pending(nt) == c39WaitingIssued(results, issued)
		})
	}
	// quiescent: callers that got an answer have returned (or return promptly); give the
	// goroutines their (count-based) chance: a response written to a buffered channel wakes them
	nsWait(func() bool {
		mu.Lock()
		defer mu.Unlock()
		n := 0
		for i := range results {
			if results[i].done {
				n++
			}
		}
		return n == len(results) || c39Pending(nt) == c39Waiting(results)
	})
	cancel()
	wg.Wait()
	rep := func() any { s := sc; s.Choices = c.Choices(); return s }
	var outcome []string
	for i, rq := range sc.Reqs {
		res := results[i]
		switch {
		case res.err != nil || res.resp == nil:
			outcome = append(outcome, fmt.Sprintf("%d:none", i))
			r.Violate("C39/no-response/"+sc.Name, fmt.Sprintf("scenario %s: requester n%d asked n%d for status and never received a response although every frame was delivered (delivery choices %v)", sc.Name, rq.From, rq.To, c.Choices()), rep())
		default:
			var st struct {
				AgentID string `json:"agent_id"`
			}
			json.Unmarshal(res.resp.Data, &st)
			who := nt.idxFromString(st.AgentID)
			outcome = append(outcome, fmt.Sprintf("%d:n%d", i, who))
			if who != rq.To {
				r.Violate("C39/wrong-answer/"+sc.Name, fmt.Sprintf("scenario %s: requester n%d asked n%d but received the status of n%d (%s)", sc.Name, rq.From, rq.To, who, st.AgentID), rep())
			}
		}
	}
	// leftovers: pending/forwarded bookkeeping must not keep other agents' responses
	r.Outcome(sc.Name + "|" + strings.Join(outcome, ","))
	if len(sc.Reqs) > 1 {
		r.Nontrivial(sc.Name + fmt.Sprint(c.Choices()))
	}
}

// c39Pending = number of requests still registered as pending at their issuers.
func c39Pending(nt *nsNet) int {
	n := 0
	for _, a := range nt.agents {
		a.controlMu.RLock()
		n += len(a.pendingControl)
		a.controlMu.RUnlock()
	}
	return n
}

func c39Waiting(results []c39Result) int {
	n := 0
	for i := range results {
		if !results[i].done {
			n++
		}
	}
	return n
}

func (n *nsNet) idxFromString(s string) int {
	for i, id := range n.ids {
		if id.String() == s {
			return i
		}
	}
	return -1
}

func TestVerif_C39(t *testing.T) {
	r := vmc.New("C39", "model_checking")
	r.Rule = "all delivery interleavings (stateless DFS over the next link to deliver from) of 1-3 concurrent real SendControlRequest calls through one real transit, each issuer numbering its requests from 1; non-trivial = executions with at least two concurrent requests; outcomes = distinct (scenario, who answered whom); part F adds the fault event of a failing forward write, part G a forward write that parks (gate) while other peers' requests are handled at the relay and fails on release: non-trivial there = executions in which the relay allocated another id between park and release"
	r.Assume("links FIFO and reliable; routes converged before the requests; callers run in their own goroutines and are awaited with count-based barriers")
	var probe struct {
		Kind string `json:"kind"`
	}
	if r.ReplayInto(&probe) && probe.Kind == "fail-link" {
		var fs c39FailScenario
		r.ReplayInto(&fs)
		c39RunFail(r, fs, vmc.NewReplayChooser(fs.Choices))
		r.Add("states", 1)
		r.Add("transitions", 1)
		if err := r.Finish(); err != nil {
			t.Fatal(err)
		}
		return
	}
	if probe.Kind == "stalled-write" {
		var ss c39StallScenario
		r.ReplayInto(&ss)
		c39RunStall(r, ss, vmc.NewReplayChooser(ss.Choices))
		r.Add("states", 1)
		r.Add("transitions", 1)
		if err := r.Finish(); err != nil {
			t.Fatal(err)
		}
		return
	}
	var rp c39Scenario
	if r.ReplayInto(&rp) {
		c39Run(r, rp, vmc.NewReplayChooser(rp.Choices))
		r.Add("states", 1); r.Add("transitions", 1)
		if err := r.Finish(); err != nil {
			t.Fatal(err)
		}
		return
	}
	for _, sc := range c39Scenarios {
		sc := sc
		if len(sc.Reqs) > 2 && !r.Thorough() {
			continue
		}
		st := vmc.Explore(r, func(c *vmc.Chooser) { c39Run(r, sc, c) }, vmc.DFSOpts{Bound: -1})
		r.Add("evaluations", st.Executions)
		r.Add("states", st.Executions)
		r.Add("transitions", st.Points)
		r.Add("traces_validated_against_impl", st.Executions)
		r.Sample(map[string]any{"scenario": sc.Name, "requests": sc.Reqs, "interleavings": st.Executions})
	}
	// part F: the relay's write to the next hop fails (fail_test.go)
	c39FailPart(r)
	// part G: the relay's write to the next hop stalls while other peers' requests are handled (stall_test.go)
	c39StallPart(r)
	if err := r.Finish(); err != nil {
		t.Fatal(err)
	}
}

func c39WaitingIssued(results []c39Result, issued int) int {
	n := 0
	for i := 0; i < issued; i++ {
		if !results[i].done {
			n++
		}
	}
	return n
}
