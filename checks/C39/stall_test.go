//go:build verif

package agent

// C39, part G -- a relay whose write to the next hop STALLS, then fails, while other peers' requests arrive.
//
// Part F's broken link refuses a write at once, and the harness hands frames to the relay one after the
// other: nothing else happens at the relay between "id allocated for the forward" and "the forward failed".
// The real agent runs one frame loop per peer connection, and the forward write is a blocking stream write
// made OUTSIDE controlMu: while the write of one request is stuck on a dying link, requests of OTHER peers
// (and the relay's own SendControlRequest calls) are handled, allocate relay-local ids and register their
// bookkeeping. Whatever the failure branch undoes afterwards must not disturb those.
//
// Here the writer under T's connection to X1 PARKS the writing goroutine inside Write (gate channel) and the
// harness owns the gate. Deliveries to T run in a goroutine of their own, as T's per-peer frame loops do; a
// delivery event is complete when processFrame has returned OR the goroutine is parked in the sink (counted
// by the sink, no timing). While peer P's frame is parked, no further frame of P is delivered to T (P's loop
// is busy); every other peer's frames, and T's own requests, go on.
//
// Enumerated (stateless DFS, no bound), every interleaving of
//
//	deliver the head frame of one directed link | the relay issues its next own request | RELEASE (the parked write returns)
//
// for scenarios of 2-3 requests of DIFFERENT requesters (A, B, X2, T itself), exactly one of them routed over
// the stalling link T->X1 (relayed, or T's own). The requests of the remote requesters are written to their
// links to T before the enumeration starts: issuing one touches only the requester and the queue, it commutes
// with every other event; its delivery to T is the enumerated event. The parked write returns an error on
// RELEASE (thorough: also scenarios in which it then succeeds). The gate is released in a defer, so a parked
// goroutine cannot outlive an execution whatever path the driver leaves by.
//
// Oracle: part F's, per caller at quiescence -- a request the link refused gets a failure, every other
// request gets the status of the agent it targeted.

import (
	"context"
	"encoding/json"
	"errors"
	"fmt"
	"strings"
	"sync"

	"github.com/postalsys/muti-metroo/internal/peer"
	"github.com/postalsys/muti-metroo/internal/protocol"
	"github.com/postalsys/muti-metroo/internal/vmc"
)

type c39StallScenario struct {
	Kind      string   `json:"kind"` // "stalled-write"
	Name      string   `json:"name"`
	ReleaseOK bool     `json:"write_succeeds_on_release"`
	Reqs      []c39Req `json:"reqs"`
	Choices   []int    `json:"choices,omitempty"`
}

// c39StallSink is the writer under T's connection to X1: once armed, a Write parks until the harness releases it.
type c39StallSink struct {
	mu        sync.Mutex
	inner     *nsSink
	mode      int // 0 healthy, 1 the next write parks, 2 broken (writes fail at once)
	gate      chan struct{}
	releaseOK bool
	parked    int // writes that have entered the gate
	returned  int // parked writes that have left Write's critical part
	refused   [][]byte
}

func (s *c39StallSink) Write(p []byte) (int, error) {
	s.mu.Lock()
	switch s.mode {
	case 0:
		s.mu.Unlock()
		return s.inner.Write(p)
	case 2:
		s.refused = append(s.refused, append([]byte(nil), p...))
		s.mu.Unlock()
		return 0, errC39BrokenPipe
	}
	s.parked++
	g := s.gate
	s.mu.Unlock()
	<-g
	var n int
	var err error
	s.mu.Lock()
	ok := s.releaseOK
	if !ok {
		s.refused = append(s.refused, append([]byte(nil), p...))
		err = errC39BrokenPipe
	}
	s.mu.Unlock()
	if ok {
		n, err = s.inner.Write(p)
	}
	s.mu.Lock()
	s.returned++
	s.mu.Unlock()
	return n, err
}

func (s *c39StallSink) arm() {
	s.mu.Lock()
	s.mode, s.gate = 1, make(chan struct{})
	s.mu.Unlock()
}

// release lets the parked write (if any) return; idempotent.
func (s *c39StallSink) release() {
	s.mu.Lock()
	if s.mode == 1 {
		if s.releaseOK {
			s.mode = 0
		} else {
			s.mode = 2
		}
		close(s.gate)
	}
	s.mu.Unlock()
}

func (s *c39StallSink) counts() (parked, returned int) {
	s.mu.Lock()
	defer s.mu.Unlock()
	return s.parked, s.returned
}

func (s *c39StallSink) refusedTags() map[string]int {
	s.mu.Lock()
	defer s.mu.Unlock()
	out := map[string]int{}
	for _, b := range s.refused {
		f, err := protocol.Decode(b)
		if err != nil || f.Type != protocol.FrameControlRequest {
			continue
		}
		if rq, err := protocol.DecodeControlRequest(f.Payload); err == nil {
			out[string(rq.Data)]++
		}
	}
	return out
}

func c39StallScenarios(thorough bool) []c39StallScenario {
	base := []struct {
		name string
		reqs []c39Req
		deep bool
	}{
		{"two", []c39Req{{c39A, c39X1}, {c39B, c39X2}}, false},
		{"three-relayed", []c39Req{{c39A, c39X1}, {c39B, c39X2}, {c39X2, c39A}}, false},
		{"two-relayed-then-relay-asks", []c39Req{{c39A, c39X1}, {c39B, c39X2}, {c39T, c39A}}, false},
		{"relay-asks-then-relayed", []c39Req{{c39A, c39X1}, {c39T, c39X2}, {c39B, c39A}}, false},
		{"relay-own-write-stalls", []c39Req{{c39T, c39X1}, {c39A, c39X2}, {c39B, c39A}}, false},
		{"relay-own-write-stalls-relay-asks-again", []c39Req{{c39T, c39X1}, {c39A, c39X2}, {c39T, c39B}}, true},
		{"same-requester-again", []c39Req{{c39A, c39X1}, {c39B, c39X2}, {c39A, c39B}}, true},
	}
	var out []c39StallScenario
	for _, ok := range []bool{false, true} {
		if ok && !thorough {
			continue
		}
		for _, b := range base {
			if b.deep && !thorough {
				continue
			}
			name := b.name
			if ok {
				name += "/write-succeeds"
			}
			out = append(out, c39StallScenario{Kind: "stalled-write", Name: name, ReleaseOK: ok, Reqs: b.reqs})
		}
	}
	return out
}

func c39RunStall(r *vmc.Result, sc c39StallScenario, c *vmc.Chooser) {
	nt, err := nsNew(5, nil)
	if err != nil {
		r.HarnessError("C39 build: %v", err)
		return
	}
	defer nt.close()
	for _, e := range [][2]int{{c39A, c39T}, {c39B, c39T}, {c39T, c39X2}} {
		nt.connect(e[0], e[1])
	}
	sink := &c39StallSink{inner: &nsSink{nt, c39T, c39X1}, releaseOK: sc.ReleaseOK}
	ca := peer.VerifNewConnection(nt.ids[c39T], nt.ids[c39X1], true, sink)
	cb := peer.VerifNewConnection(nt.ids[c39X1], nt.ids[c39T], false, &nsSink{nt, c39X1, c39T})
	nt.conn[[2]int{c39T, c39X1}] = ca
	nt.conn[[2]int{c39X1, c39T}] = cb
	if !nt.agents[c39T].peerMgr.VerifRegister(ca) || !nt.agents[c39X1].peerMgr.VerifRegister(cb) {
		r.HarnessError("C39 stall part: link T-X1 not registered")
		return
	}
	for i := 0; i < 5; i++ {
		nt.agents[i].flooder.AnnounceLocalRoutes()
	}
	nt.run(nil, 10000)

	ctx, cancel := context.WithCancel(context.Background())
	defer cancel()
	sink.arm()
	defer sink.release() // whatever happens below, a parked writer is let go

	T := nt.agents[c39T]
	relayCounter := func() uint64 {
		T.controlMu.RLock()
		defer T.controlMu.RUnlock()
		return T.nextControlID
	}
	results := make([]c39Result, len(sc.Reqs))
	started := make([]bool, len(sc.Reqs))
	var mu sync.Mutex
	var wg sync.WaitGroup
	isDone := func(i int) bool {
		mu.Lock()
		defer mu.Unlock()
		return results[i].done
	}
	waiting := func() int { // callers started and not yet returned
		mu.Lock()
		defer mu.Unlock()
		n := 0
		for i := range results {
			if started[i] && !results[i].done {
				n++
			}
		}
		return n
	}
	// start runs request i's caller; returns once its frame is written, it has returned, or it is parked in the sink
	start := func(i int) (parkedNow, ok bool) {
		rq := sc.Reqs[i]
		before := nt.sentLen()
		pBefore, _ := sink.counts()
		mu.Lock()
		started[i] = true
		mu.Unlock()
		wg.Add(1)
		go func() {
			defer wg.Done()
			resp, err := nt.agents[rq.From].SendControlRequestWithData(ctx, nt.ids[rq.To], protocol.ControlTypeStatus, []byte(c39Tag(i)))
			mu.Lock()
			results[i] = c39Result{resp, err, true}
			mu.Unlock()
		}()
		ok = nsWait(func() bool {
			p, _ := sink.counts()
			parkedNow = p > pBefore
			return parkedNow || nt.sentLen() > before || isDone(i)
		})
		return parkedNow, ok
	}
	// the remote requesters' frames are on their links to T before the enumeration starts
	for i, rq := range sc.Reqs {
		if rq.From == c39T {
			continue
		}
		if _, ok := start(i); !ok {
			r.HarnessError("C39 stall part: request %d never sent", i)
			return
		}
	}
	nextOwn := func() int {
		for i, rq := range sc.Reqs {
			if rq.From == c39T && !started[i] {
				return i
			}
		}
		return -1
	}

	type stall struct {
		link   [2]int        // the link whose frame is being processed (delivery stalls)
		own    int           // index of the relay's own request (own >= 0), else -1
		done   chan struct{} // closed when the delivery goroutine has returned
		idThen uint64        // the relay-local id the parked request was given
	}
	var st *stall
	overlapped := false // an id was allocated at the relay between park and release
	var trace []string
	type ev struct {
		kind string
		link [2]int
	}
	for steps := 0; steps < 1000; steps++ {
		var evs []ev
		if nextOwn() >= 0 {
			evs = append(evs, ev{kind: "issue"})
		}
		for _, l := range nt.pending() {
			if st != nil && st.own < 0 && l == st.link {
				continue // that peer's frame loop is inside the parked write
			}
			evs = append(evs, ev{kind: "deliver", link: l})
		}
		if st != nil {
			evs = append(evs, ev{kind: "release"})
		}
		if len(evs) == 0 {
			break
		}
		k := 0
		if len(evs) > 1 {
			k = c.Choose(len(evs), 0, "next")
		}
		switch e := evs[k]; e.kind {
		case "issue":
			i := nextOwn()
			idThen := relayCounter()
			parkedNow, ok := start(i)
			if !ok {
				r.HarnessError("C39 stall part: the relay's request %d never sent", i)
				return
			}
			if parkedNow {
				st = &stall{own: i, idThen: idThen + 1}
				trace = append(trace, fmt.Sprintf("issue%d(parked in the write to X1)", i))
			} else {
				trace = append(trace, fmt.Sprintf("issue%d", i))
			}
		case "deliver":
			if e.link[1] != c39T {
				nt.deliver(e.link[0], e.link[1])
				trace = append(trace, fmt.Sprintf("n%d>n%d", e.link[0], e.link[1]))
				break
			}
			// T's frame loop for that peer: own goroutine, may park in the write to X1
			done := make(chan struct{})
			pBefore, _ := sink.counts()
			idThen := relayCounter()
			l := e.link
			go func() {
				defer close(done)
				nt.deliver(l[0], l[1])
			}()
			finished, parkedNow := false, false
			if !nsWait(func() bool {
				select {
				case <-done:
					finished = true
					return true
				default:
				}
				p, _ := sink.counts()
				parkedNow = p > pBefore
				return parkedNow
			}) {
				r.HarnessError("C39 stall part: delivery n%d>n%d neither returned nor parked", l[0], l[1])
				return
			}
			if !finished && parkedNow {
				st = &stall{link: l, own: -1, done: done, idThen: idThen + 1}
				trace = append(trace, fmt.Sprintf("n%d>n%d(parked in the write to X1)", l[0], l[1]))
			} else {
				trace = append(trace, fmt.Sprintf("n%d>n%d", l[0], l[1]))
			}
		case "release":
			if relayCounter() > st.idThen {
				overlapped = true
			}
			sink.release()
			if sc.ReleaseOK {
				trace = append(trace, "RELEASE(write succeeds)")
			} else {
				trace = append(trace, "RELEASE(write fails)")
			}
			ok := nsWait(func() bool { p, q := sink.counts(); return p == q })
			if ok && st.own < 0 {
				ok = nsWait(func() bool {
					select {
					case <-st.done:
						return true
					default:
						return false
					}
				})
			} else if ok && !sc.ReleaseOK {
				own := st.own
				ok = nsWait(func() bool { return isDone(own) }) // the refused send makes the caller return
			}
			if !ok {
				r.HarnessError("C39 stall part: the released write's goroutine did not finish")
				return
			}
			st = nil
		}
		// a delivered response wakes its caller asynchronously; let it return before the next choice. A caller
		// of the relay that is parked in the write cannot return before RELEASE: it and its table entry (if it
		// is still there) are left out of the count.
		nsWait(func() bool {
			p, w := c39Pending(nt), waiting()
			if st != nil && st.own >= 0 {
				w--
				T.controlMu.RLock()
				if _, ok := T.pendingControl[st.idThen]; ok {
					p--
				}
				T.controlMu.RUnlock()
			}
			return p == w
		})
	}
	cancel()
	sink.release()
	wg.Wait()

	rep := func() any { s := sc; s.Choices = c.Choices(); return s }
	refused := sink.refusedTags()
	fam := sc.Name
	var outcome []string
	for i, rq := range sc.Reqs {
		res := results[i]
		wasRefused := refused[c39Tag(i)] > 0
		got, who := "none", -1
		var detail string
		switch {
		case res.resp != nil && res.resp.Success:
			var s struct {
				AgentID string `json:"agent_id"`
			}
			json.Unmarshal(res.resp.Data, &s)
			who = nt.idxFromString(s.AgentID)
			got, detail = "status", fmt.Sprintf("the status of n%d", who)
		case res.resp != nil:
			got, detail = "error", fmt.Sprintf("the failure response %q", string(res.resp.Data))
		case res.err != nil && !errors.Is(res.err, context.Canceled):
			got, detail = "error", fmt.Sprintf("the send error %q", res.err.Error())
		default:
			detail = "nothing (still waiting when every frame had been delivered)"
		}
		outcome = append(outcome, fmt.Sprintf("%d:%s:n%d:refused=%v", i, got, who, wasRefused))
		what := fmt.Sprintf("scenario %s, events %v: request %d (n%d asks n%d, tag %s, forward refused by the stalled link: %v) received %s",
			sc.Name, trace, i, rq.From, rq.To, c39Tag(i), wasRefused, detail)
		switch {
		case wasRefused && got == "none":
			r.Violate("C39/stalled-forward/no-error-to-its-caller/"+fam, what, rep())
		case wasRefused && got == "status":
			r.Violate("C39/stalled-forward/answered-with-a-status/"+fam, what, rep())
		case !wasRefused && got == "error":
			r.Violate("C39/stalled-forward/error-delivered-to-other-request/"+fam, what, rep())
		case !wasRefused && got == "none":
			r.Violate("C39/no-response/stalled-link/"+fam, what, rep())
		case !wasRefused && who != rq.To:
			r.Violate("C39/wrong-answer/stalled-link/"+fam, what, rep())
		}
	}
	r.Outcome("G:" + fam + "|" + strings.Join(outcome, ","))
	if overlapped {
		// non-trivial: the relay gave out at least one more id while the write was parked
		r.Nontrivial("G:" + sc.Name + fmt.Sprint(c.Choices()))
		r.Add("stalled_write_overlapped_executions", 1)
	}
}

func c39StallPart(r *vmc.Result) {
	r.Info["stall_part"] = map[string]any{"stalling_link": "n2->n3 (relay T -> target X1): the write parks until RELEASE, then fails (thorough: or succeeds)", "requests": "2-3, different requesters, one over the stalling link"}
	sampled := 0
	for _, sc := range c39StallScenarios(r.Thorough()) {
		sc := sc
		if r.Expired() {
			return
		}
		st := vmc.Explore(r, func(c *vmc.Chooser) { c39RunStall(r, sc, c) }, vmc.DFSOpts{Bound: -1})
		r.Add("evaluations", st.Executions)
		r.Add("stalled_write_executions", st.Executions)
		r.Add("states", st.Executions)
		r.Add("transitions", st.Points)
		r.Add("traces_validated_against_impl", st.Executions)
		if sampled < 3 {
			sampled++
			r.Sample(map[string]any{"part": "stalled-write", "scenario": sc.Name, "requests": sc.Reqs, "interleavings": st.Executions})
		}
	}
}
