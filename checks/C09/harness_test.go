//go:build verif

package routing

// C09 -- domain, forward-key and agent-presence lookups select the documented best route.
//
// Same driver as C08 (zz_verif_routing_common_test.go): explicit-state BFS over
// histories of operations on a real routing.Manager. In every reached state
// LookupDomain / LookupForward / LookupAgent are called for every probe and
// compared with a brute-force reference over the dump of the real tables.
//
// Domain reference (decided on the *stored Pattern strings*, not on the map keys,
// so a wrong key derivation on insert is visible):
//   E = stored routes whose pattern is not a wildcard and equals the probe, ASCII case-folded
//   W = stored routes whose pattern is "*.<base>" and probe == <one label> "." <base>
//       (case-folded; the label is non-empty and contains no dot)
//   E != {}          -> a stored route of E with the minimum metric of E
//   E == {}, W != {} -> a stored route of W with the minimum metric of W
//   both empty       -> nil
// Forward / agent reference: the routes stored for exactly that key (case-sensitive) /
// agent id; minimum metric among them; nil iff there is none.

import (
	"fmt"
	"strings"
	"sync/atomic"
	"testing"

	"github.com/postalsys/muti-metroo/internal/vmc"
)

var c09DomainProbes = []string{"a.com", "A.COM", "x.a.com", "X.a.CoM", "x.y.a.com", "b.a.com", "c.b.a.com", ".a.com", "a.com.", "xa.com", "com"}
var c09ForwardProbes = []string{"web", "Web", "we", "web2", "WEB"}
var c09AgentProbes = []string{"O1", "O2", "P1"}

func c09Scenarios(r *vmc.Result) []rtScenario {
	p1, p2 := []string{"P1"}, []string{"P1", "P2"}
	o1, o2 := []string{"O1"}, []string{"O1", "O2"}
	s1, s2 := []uint64{1}, []uint64{1, 2}
	m1, m2, m3 := []uint16{1}, []uint16{1, 2}, []uint16{1, 2, 3}
	patterns := []string{"a.com", "A.com", "*.a.com", "*.A.COM", "b.a.com", "*.b.a.com"}
	keys := []string{"web", "Web", "we", "web2"}
	thorough := r.Thorough()
	scs := []rtScenario{
		// every pattern of the pool from remote origins only (no unbounded counter): reaches every combination of stored patterns -- fixpoint
		rtMkScenario("d-patterns", 0, p1, rtAlpha{Tbl: 'd', Keys: patterns, Peers: p1, Origins: vmc.Pick(r, o1, o2), Seqs: s1, Metrics: m1}),
		// local and remote routes for the same patterns written in different cases
		rtMkScenario("d-local", vmc.Pick(r, 5, 6), p1, rtAlpha{Tbl: 'd', Keys: []string{"a.com", "*.A.COM", "b.a.com"}, Peers: p1, Origins: o1, Seqs: s1, Metrics: m2,
			LocalKeys: []string{"A.com", "*.a.com"}, LocalMet: m2}),
		// metric / sequence / origin interplay within one exact and one wildcard pattern written in two cases
		rtMkScenario("d-metric", vmc.Pick(r, 4, 5), p1, rtAlpha{Tbl: 'd', Keys: []string{"a.com", "A.com", "*.a.com"}, Peers: p1, Origins: o2,
			Seqs: s2, Metrics: m3, LoopAdv: true}),
		rtMkScenario("f-keys", 0, p1, rtAlpha{Tbl: 'f', Keys: vmc.Pick(r, keys[:3], keys), Peers: p1, Origins: o2, Seqs: s1, Metrics: m1}),
		rtMkScenario("f-metric", vmc.Pick(r, 4, 5), p1, rtAlpha{Tbl: 'f', Keys: []string{"web", "Web"}, Peers: p1, Origins: o2,
			Seqs: s2, Metrics: m3, LoopAdv: true, LocalKeys: []string{"web"}, LocalMet: m2[1:]}),
		rtMkScenario("a-metric", vmc.Pick(r, 4, 5), p2, rtAlpha{Tbl: 'a', Keys: o2, Peers: p2, Origins: o2, Seqs: s2, Metrics: m3, LoopAdv: true}),
	}
	scs = append(scs, c09RemovalScenarios(r)...)
	if thorough {
		scs = append(scs,
			// agent routes whose origin differs from the target agent (the API allows it; the mesh never sends it)
			rtMkScenario("a-metric-any-origin", 4, p2, rtAlpha{Tbl: 'a', Keys: o2, Peers: p2, Origins: o2, Seqs: s2, Metrics: m3, LoopAdv: true, AgentAny: true}),
			rtMkScenario("d-metric-2peers", 4, p2, rtAlpha{Tbl: 'd', Keys: []string{"a.com", "A.com", "*.a.com"}, Peers: p2, Origins: o2, Seqs: s2, Metrics: m3, LoopAdv: true}),
			rtMkScenario("f-metric-2peers", 4, p2, rtAlpha{Tbl: 'f', Keys: []string{"web", "Web"}, Peers: p2, Origins: o2, Seqs: s2, Metrics: m3, LoopAdv: true,
				LocalKeys: []string{"web"}, LocalMet: m2[1:]}))
	}
	return scs
}

// c09RemovalScenarios is the family "three routes in one slot, then removals".
//
// The per-pattern / per-key / per-agent slices are kept sorted by the insert path only;
// every removal path has to preserve that order on its own. With at most two routes in a
// slot every way of deleting an element leaves the same slice, so the base scenarios
// (two origins, or one origin plus the local route, per slot within their depth) cannot
// tell an order-preserving removal from one that is not. Here one slot holds up to
// three entries (domain, forward: three remote origins, or two remote origins plus the
// agent's own local route; agent table: one origin heard over three neighbours), and
// the alphabet contains every removal the real Manager offers:
//
//	wd    <Table>.RemoveRoute(key, origin)            one origin's entry (any position)
//	reml  Manager.RemoveLocalDomainRoute / ...Forward  the agent's own metric-0 entry (always in front)
//	disc  Manager.HandlePeerDisconnect*(peer)          every entry learned over one of two / three neighbours
//	tick + clean  Manager.CleanupStale*Routes          every entry not refreshed since the tick
//
// The remote-only scenarios carry no unbounded counter and run to the fixpoint: every
// combination of (absent | next hop x metric x fresh/stale) per origin in every slice
// order the real code can produce, and from each of them every removal. The oracle is
// the unchanged reference of this check, evaluated in every reached state.
func c09RemovalScenarios(r *vmc.Result) []rtScenario {
	p2 := []string{"P1", "P2"}
	o2, o3 := []string{"O1", "O2"}, []string{"O1", "O2", "O3"}
	s1, s2 := []uint64{1}, []uint64{1, 2}
	m0, m2, m3 := []uint16{0}, []uint16{1, 2}, []uint16{1, 2, 3}
	seqs := vmc.Pick(r, s1, s2) // thorough: a newer sequence may also raise the metric of a stored entry
	localDepth := vmc.Pick(r, 6, 9)
	return []rtScenario{
		rtMkScenario("d3-exact", 0, p2, rtAlpha{Tbl: 'd', Keys: []string{"a.com"}, Peers: p2, Origins: o3, Seqs: seqs, Metrics: m3}),
		rtMkScenario("d3-wild", 0, p2, rtAlpha{Tbl: 'd', Keys: []string{"*.A.com"}, Peers: p2, Origins: o3, Seqs: seqs, Metrics: m3}),
		// this agent is itself an exit for the pattern (metric 0, as the configuration loader adds it) while two remote exits advertise it too
		rtMkScenario("d3-local-exact", localDepth, p2, rtAlpha{Tbl: 'd', Keys: []string{"a.com"}, Peers: p2, Origins: o2, Seqs: s1, Metrics: m2,
			LocalKeys: []string{"a.com"}, LocalMet: m0}),
		rtMkScenario("d3-local-wild", localDepth, p2, rtAlpha{Tbl: 'd', Keys: []string{"*.a.com"}, Peers: p2, Origins: o2, Seqs: s1, Metrics: m2,
			LocalKeys: []string{"*.a.com"}, LocalMet: m0}),
		rtMkScenario("f3", 0, p2, rtAlpha{Tbl: 'f', Keys: []string{"web"}, Peers: p2, Origins: o3, Seqs: seqs, Metrics: m3}),
		rtMkScenario("f3-local", localDepth, p2, rtAlpha{Tbl: 'f', Keys: []string{"web"}, Peers: p2, Origins: o2, Seqs: s1, Metrics: m2,
			LocalKeys: []string{"web"}, LocalMet: m0}),
		// the agent table keeps one entry per (origin, next hop): O1's presence heard over three neighbours (the third neighbour is named O3)
		rtMkScenario("a3", 0, []string{"P1", "P2", "O3"}, rtAlpha{Tbl: 'a', Keys: []string{"O1"}, Peers: []string{"P1", "P2", "O3"}, Origins: []string{"O1"}, Seqs: seqs, Metrics: m3}),
	}
}

func TestVerif_C09(t *testing.T) {
	r := vmc.New("C09", "model_checking")
	r.Rule = "BFS over histories of advertise/remove/disconnect/tick/cleanup/local operations on a real routing.Manager; in every reached state LookupDomain (11 probes: case variants, one and two labels below a wildcard base, leading/trailing dot, suffix-only look-alike), LookupForward (5 probes) and LookupAgent (3 probes) are compared with a brute-force reference over the dumped tables. The family d3-*/f3*/a3 puts up to three routes (three remote origins, two remote origins plus the local route, one origin over three neighbours) into ONE pattern / key / agent slot and contains every removal the Manager offers (RemoveRoute by origin, RemoveLocal*Route, peer disconnect = by next hop, stale cleanup), to the fixpoint where no counter is involved. An evaluation (state, probe) is non-trivial when the reference has to choose: an exact and a wildcard pattern both match, or the chosen pattern/key holds at least two routes, or a wildcard with the probe's suffix is stored but must not match; distinct = distinct (table, probe, candidate metrics in stored order, wildcard situation)"
	r.Assume("a wildcard matches exactly one non-empty label; patterns are those ParseDomainPattern recognises (prefix \"*.\"), without surrounding white space")
	r.Assume("time is owned by rewriting LastUpdate in-package (tick = -1000 h) and passing maxAge = 500 h; a single history replay takes far less than 500 h of real time")
	col := rtNewCollector()
	marks := &rtMarks{r: r}
	var evals int64
	oracle := func(sc *rtScenario, hist []string, w *rtWorld, before, after *rtDump, last *rtApplied, fresh bool) {
		if !fresh {
			return
		}
		n := 0
		if strings.IndexByte(sc.Tables, 'd') >= 0 {
			stored := after.table('d')
			for _, probe := range c09DomainProbes {
				n++
				lp := strings.ToLower(probe)
				var exact, wild, deeper []*rtEntry
				for _, e := range stored {
					pat := strings.ToLower(e.Pattern)
					if strings.HasPrefix(pat, "*.") {
						base := pat[2:]
						if strings.HasSuffix(lp, "."+base) {
							label := lp[:len(lp)-len(base)-1]
							if label != "" && !strings.Contains(label, ".") {
								wild = append(wild, e)
							} else {
								deeper = append(deeper, e) // same suffix, but not exactly one label: must not match
							}
						}
					} else if pat == lp {
						exact = append(exact, e)
					}
				}
				want, wantKind := exact, "exact"
				if len(exact) == 0 {
					want, wantKind = wild, "wildcard"
				}
				got := w.m.LookupDomain(probe)
				viol := func(clause, what string) {
					col.violate("C09/domain/"+clause+"/"+probe, fmt.Sprintf("LookupDomain(%q) %s; table %s", probe, what, after.short()), sc, hist)
				}
				if (len(exact) > 0 && len(wild) > 0) || len(want) >= 2 || len(deeper) > 0 {
					marks.nontrivial(fmt.Sprintf("d|%s|%s%v|w%d|x%d", probe, wantKind[:1], c09Metrics(want), len(wild), len(deeper)))
				}
				if len(want) == 0 {
					if got != nil {
						clause := "matched-without-a-matching-pattern"
						if strings.HasPrefix(got.Pattern, "*.") && strings.HasSuffix(lp, "."+strings.ToLower(got.Pattern[2:])) {
							clause = "wildcard-matched-not-exactly-one-label"
						}
						viol(clause, fmt.Sprintf("returned pattern %q metric %d although no stored pattern matches", got.Pattern, got.Metric))
					}
					marks.outcome("d|" + probe + "|nil")
					continue
				}
				if got == nil {
					viol("missed-"+wantKind, fmt.Sprintf("returned nil although a stored %s pattern matches", wantKind))
					continue
				}
				minMetric := want[0].Metric
				inWant, isStored := false, false
				for _, e := range want {
					if e.Metric < minMetric {
						minMetric = e.Metric
					}
					if strings.EqualFold(e.Pattern, got.Pattern) {
						inWant = true
					}
				}
				for _, e := range stored {
					if e.Pattern == got.Pattern && e.Origin == rtName(got.OriginAgent) && e.NextHop == rtName(got.NextHop) && e.Seq == got.Sequence && e.Metric == got.Metric {
						isStored = true
					}
				}
				switch {
				case !isStored:
					viol("returned-route-not-stored", fmt.Sprintf("returned pattern %q origin %s metric %d seq %d which is not a stored route", got.Pattern, rtName(got.OriginAgent), got.Metric, got.Sequence))
				case !inWant && wantKind == "exact" && strings.HasPrefix(got.Pattern, "*."):
					viol("wildcard-preferred-over-exact", fmt.Sprintf("returned wildcard %q although an exact pattern is stored", got.Pattern))
				case !inWant:
					viol("wrong-pattern", fmt.Sprintf("returned pattern %q which is not the matching %s pattern", got.Pattern, wantKind))
				case got.Metric != minMetric:
					viol("not-lowest-metric", fmt.Sprintf("returned metric %d although the chosen pattern holds a route with metric %d", got.Metric, minMetric))
				}
				marks.outcome(fmt.Sprintf("d|%s|%s|m%d", probe, strings.ToLower(got.Pattern), got.Metric))
			}
		}
		if strings.IndexByte(sc.Tables, 'f') >= 0 {
			stored := after.table('f')
			for _, probe := range c09ForwardProbes {
				n++
				var want []*rtEntry
				for _, e := range stored {
					if e.Ident == probe {
						want = append(want, e)
					}
				}
				got := w.m.LookupForward(probe)
				viol := func(clause, what string) {
					col.violate("C09/forward/"+clause+"/"+probe, fmt.Sprintf("LookupForward(%q) %s; table %s", probe, what, after.short()), sc, hist)
				}
				if len(want) >= 2 {
					marks.nontrivial(fmt.Sprintf("f|%s|%v", probe, c09Metrics(want)))
				}
				if len(want) == 0 {
					if got != nil {
						viol("returned-for-absent-key", fmt.Sprintf("returned key %q metric %d although no route is stored for the key", got.Key, got.Metric))
					}
					marks.outcome("f|" + probe + "|nil")
					continue
				}
				if got == nil {
					viol("missed-stored-key", "returned nil although a route is stored for the key")
					continue
				}
				minMetric := want[0].Metric
				isStored := false
				for _, e := range want {
					if e.Metric < minMetric {
						minMetric = e.Metric
					}
					if got.Key == probe && e.Origin == rtName(got.OriginAgent) && e.NextHop == rtName(got.NextHop) && e.Seq == got.Sequence && e.Metric == got.Metric {
						isStored = true
					}
				}
				switch {
				case got.Key != probe:
					viol("wrong-key", fmt.Sprintf("returned a route for key %q", got.Key))
				case !isStored:
					viol("returned-route-not-stored", fmt.Sprintf("returned origin %s metric %d seq %d which is not a stored route", rtName(got.OriginAgent), got.Metric, got.Sequence))
				case got.Metric != minMetric:
					viol("not-lowest-metric", fmt.Sprintf("returned metric %d although the key holds a route with metric %d", got.Metric, minMetric))
				}
				marks.outcome(fmt.Sprintf("f|%s|m%d", probe, got.Metric))
			}
		}
		if strings.IndexByte(sc.Tables, 'a') >= 0 {
			stored := after.table('a')
			for _, probe := range c09AgentProbes {
				n++
				var want []*rtEntry
				for _, e := range stored {
					if e.Ident == probe {
						want = append(want, e)
					}
				}
				got := w.m.LookupAgent(rtID(probe))
				viol := func(clause, what string) {
					col.violate("C09/agent/"+clause+"/"+probe, fmt.Sprintf("LookupAgent(%s) %s; table %s", probe, what, after.short()), sc, hist)
				}
				if len(want) >= 2 {
					marks.nontrivial(fmt.Sprintf("a|%s|%v", probe, c09Metrics(want)))
				}
				if len(want) == 0 {
					if got != nil {
						viol("returned-for-absent-agent", fmt.Sprintf("returned agent %s metric %d although no route is stored for the agent", rtName(got.AgentID), got.Metric))
					}
					marks.outcome("a|" + probe + "|nil")
					continue
				}
				if got == nil {
					viol("missed-stored-agent", "returned nil although a route is stored for the agent")
					continue
				}
				minMetric := want[0].Metric
				isStored := false
				for _, e := range want {
					if e.Metric < minMetric {
						minMetric = e.Metric
					}
					if e.Origin == rtName(got.OriginAgent) && e.NextHop == rtName(got.NextHop) && e.Seq == got.Sequence && e.Metric == got.Metric {
						isStored = true
					}
				}
				switch {
				case rtName(got.AgentID) != probe:
					viol("wrong-agent", fmt.Sprintf("returned a route for agent %s", rtName(got.AgentID)))
				case !isStored:
					viol("returned-route-not-stored", fmt.Sprintf("returned origin %s next hop %s metric %d seq %d which is not a stored route", rtName(got.OriginAgent), rtName(got.NextHop), got.Metric, got.Sequence))
				case got.Metric != minMetric:
					viol("not-lowest-metric", fmt.Sprintf("returned metric %d although the agent holds a route with metric %d", got.Metric, minMetric))
				}
				marks.outcome(fmt.Sprintf("a|%s|m%d", probe, got.Metric))
			}
		}
		atomic.AddInt64(&evals, int64(n))
		if len(hist) >= 2 && len(hist) <= 3 && len(after.Entries) >= 2 {
			col.sample(sc, hist, after.short())
		}
	}
	rtRun(r, c09Scenarios(r), oracle)
	col.flush(r)
	r.Add("evaluations", evals)
	r.Info["probes"] = map[string]int{"domain": len(c09DomainProbes), "forward": len(c09ForwardProbes), "agent": len(c09AgentProbes)}
	if err := r.Finish(); err != nil {
		t.Fatal(err)
	}
}

func c09Metrics(es []*rtEntry) []uint16 {
	out := make([]uint16, len(es))
	for i, e := range es {
		out[i] = e.Metric
	}
	return out
}
