//go:build verif

package protocol

// Boundary corpora and codec table for C05. Every message below is within the wire limits
// of its format (see the assumptions recorded by the harness). Corpora are ordered
// simplest-first; `seeds` are the (each-choice) messages whose encodings are mutated.

import (
	"github.com/postalsys/muti-metroo/internal/identity"
)

// ---- value alphabets ----------------------------------------------------------------------

func c05Bytes(n int) []byte {
	b := make([]byte, n)
	for i := range b {
		b[i] = byte(i*7 + 1)
	}
	return b
}

func c05Str(n int) string {
	b := make([]byte, n)
	for i := range b {
		b[i] = byte('a' + i%26)
	}
	return string(b)
}

func c05ID(fill byte) identity.AgentID {
	var id identity.AgentID
	for i := range id {
		id[i] = fill
	}
	return id
}

func c05IDs(n int) []identity.AgentID {
	if n == 0 {
		return nil
	}
	ids := make([]identity.AgentID, n)
	for i := range ids {
		ids[i] = c05ID(byte(i + 1))
		ids[i][15] = byte(i >> 8)
	}
	return ids
}

func c05Key(kind int) [EphemeralKeySize]byte {
	var k [EphemeralKeySize]byte
	for i := range k {
		switch kind {
		case 1:
			k[i] = 0xff
		case 2:
			k[i] = byte(i + 1)
		}
	}
	return k
}

func c05Sig(kind int) [SignatureSize]byte {
	var s [SignatureSize]byte
	for i := range s {
		switch kind {
		case 1: // signed, every byte ff
			s[i] = 0xff
		case 2: // signed, first byte 01
			s[i] = byte(i + 1)
		case 3: // signed, first byte 00
			s[i] = byte(i)
		}
	}
	return s
}

var (
	c05U8   = []uint8{0, 1, 0xff}
	c05U16  = []uint16{0, 1, 0xffff}
	c05U64  = []uint64{0, 1, ^uint64(0)}
	c05Lens = []int{0, 1, 2, 255}
)

type c05Addr struct {
	t uint8
	a []byte
}

func c05Domain(n int) []byte { return append([]byte{byte(n)}, []byte(c05Str(n))...) }

// addresses for StreamOpen / UDPOpen / UDPDatagram
func c05Addrs() []c05Addr {
	return []c05Addr{
		{AddrTypeIPv4, []byte{0, 0, 0, 0}},
		{AddrTypeIPv4, []byte{255, 255, 255, 255}},
		{AddrTypeIPv6, c05Bytes(16)},
		{AddrTypeDomain, c05Domain(0)},
		{AddrTypeDomain, c05Domain(1)},
		{AddrTypeDomain, c05Domain(255)},
	}
}

// bound addresses for the *Ack messages (no length on the wire: 4, 16 or nothing)
func c05BoundAddrs() []c05Addr {
	return []c05Addr{
		{0, nil},
		{AddrTypeIPv4, []byte{127, 0, 0, 1}},
		{AddrTypeIPv6, c05Bytes(16)},
		{AddrTypeDomain, nil},
		{0xff, nil},
	}
}

func c05Route(fam uint8, plen uint8, prefix []byte, metric uint16) Route {
	return Route{AddressFamily: fam, PrefixLength: plen, Prefix: prefix, Metric: metric}
}

// route lists for RouteAdvertise
func c05RouteLists() [][]Route {
	v4 := c05Route(AddrFamilyIPv4, 24, []byte{10, 0, 0, 0}, 1)
	v6 := c05Route(AddrFamilyIPv6, 128, c05Bytes(16), 0xffff)
	ag := c05Route(AddrFamilyAgent, 0, c05Bytes(16), 0)
	unk := c05Route(0x09, 0xff, c05Bytes(16), 2)
	dom := func(n int) Route { return c05Route(AddrFamilyDomain, 0, EncodeDomainPrefix(c05Str(n)), 1) }
	fwd := func(k, t int) Route {
		return c05Route(AddrFamilyForward, 0, EncodeForwardKeyWithTarget(c05Str(k), c05Str(t)), 1)
	}
	many := make([]Route, 255)
	for i := range many {
		many[i] = c05Route(AddrFamilyIPv4, uint8(i%33), []byte{10, byte(i), 0, 0}, uint16(i))
	}
	return [][]Route{
		nil,
		{v4},
		{c05Route(AddrFamilyIPv4, 0, []byte{0, 0, 0, 0}, 0)},
		{v6},
		{dom(0)}, {dom(1)}, {dom(255)},
		{fwd(0, 0)}, {fwd(1, 1)}, {fwd(255, 255)},
		{ag}, {unk},
		{v4, v6, dom(3), fwd(2, 5), ag},
		many,
	}
}

// route lists for RouteWithdraw: only the fixed-size prefixes the withdraw format carries
func c05WithdrawRouteLists() [][]Route {
	v4 := c05Route(AddrFamilyIPv4, 24, []byte{10, 0, 0, 0}, 1)
	v6 := c05Route(AddrFamilyIPv6, 128, c05Bytes(16), 0xffff)
	ag := c05Route(AddrFamilyAgent, 0, c05Bytes(16), 0)
	unk := c05Route(0x09, 0xff, c05Bytes(16), 2)
	many := make([]Route, 255)
	for i := range many {
		many[i] = c05Route(AddrFamilyIPv4, uint8(i%33), []byte{10, byte(i), 0, 0}, uint16(i))
	}
	return [][]Route{nil, {v4}, {v6}, {ag}, {unk}, {v4, v6}, many}
}

func c05NodeInfos(thorough bool) []*NodeInfo {
	type strs struct{ d, h, o, a, v string }
	strVars := []strs{
		{"", "", "", "", ""},
		{"a", "b", "c", "d", "e"},
		{c05Str(255), c05Str(255), c05Str(255), c05Str(255), c05Str(255)},
	}
	if thorough {
		strVars = append(strVars,
			strs{c05Str(255), "b", "c", "d", "e"}, strs{"a", c05Str(255), "c", "d", "e"}, strs{"a", "b", c05Str(255), "d", "e"},
			strs{"a", "b", "c", c05Str(255), "e"}, strs{"a", "b", "c", "d", c05Str(255)})
	}
	times := []int64{0, -1}
	if thorough {
		times = []int64{0, 1, -1, -1 << 63, 1<<63 - 1}
	}
	rep := func(n int, s string) []string {
		l := make([]string, n)
		for i := range l {
			l[i] = s
		}
		return l
	}
	ipVars := [][]string{nil, {"10.0.0.1", "::1"}, rep(255, "x")}
	if thorough {
		ipVars = append(ipVars, []string{""}, []string{c05Str(255)})
	}
	peer := func(i int, tr string, rtt int64, d bool) PeerConnectionInfo {
		return PeerConnectionInfo{PeerID: c05ID(byte(i + 1)), Transport: tr, RTTMs: rtt, IsDialer: d}
	}
	fifty := make([]PeerConnectionInfo, MaxPeersInNodeInfo)
	for i := range fifty {
		fifty[i] = peer(i, "quic", int64(i), i%2 == 0)
	}
	peerVars := [][]PeerConnectionInfo{nil, {peer(0, "", 0, false), peer(1, "h2", -1, true)}, fifty}
	if thorough {
		peerVars = append(peerVars, []PeerConnectionInfo{peer(0, c05Str(255), 1<<63-1, true)})
	}
	twenty := make([]ForwardListenerInfo, MaxForwardListenersInNodeInfo)
	for i := range twenty {
		twenty[i] = ForwardListenerInfo{Key: c05Str(i), Address: ":80"}
	}
	flVars := [][]ForwardListenerInfo{nil, {{Key: "", Address: ""}, {Key: "k", Address: "a"}}, twenty}
	if thorough {
		flVars = append(flVars, []ForwardListenerInfo{{Key: c05Str(255), Address: c05Str(255)}})
	}
	shVars := [][]string{nil, {"", "sh"}, rep(MaxShellsInNodeInfo, "bash")}
	if thorough {
		shVars = append(shVars, []string{c05Str(255)})
	}
	keys := []int{0}
	if thorough {
		keys = []int{0, 1}
	}
	var out []*NodeInfo
	for _, s := range strVars {
		for _, st := range times {
			for _, ips := range ipVars {
				for _, ps := range peerVars {
					for _, k := range keys {
						for _, fl := range flVars {
							for _, sh := range shVars {
								for bits := 0; bits < 16; bits++ {
									out = append(out, &NodeInfo{
										DisplayName: s.d, Hostname: s.h, OS: s.o, Arch: s.a, Version: s.v, StartTime: st,
										IPAddresses: ips, Peers: ps, PublicKey: c05Key(k),
										UDPEnabled: bits&1 != 0, ForwardListeners: fl, Shells: sh,
										FileTransferEnabled: bits&2 != 0, ShellEnabled: bits&4 != 0, IcmpEnabled: bits&8 != 0,
									})
								}
							}
						}
					}
				}
			}
		}
	}
	return out
}

// a few small node infos used as seeds and inside advertisements
func c05SmallNodeInfos() []*NodeInfo {
	return []*NodeInfo{
		{},
		{DisplayName: "a", Hostname: "h", OS: "linux", Arch: "amd64", Version: "1", StartTime: 1, IPAddresses: []string{"10.0.0.1"},
			Peers:     []PeerConnectionInfo{{PeerID: c05ID(7), Transport: "quic", RTTMs: 3, IsDialer: true}},
			PublicKey: c05Key(2), UDPEnabled: true, ForwardListeners: []ForwardListenerInfo{{Key: "k", Address: ":1"}}, Shells: []string{"sh"},
			FileTransferEnabled: true, ShellEnabled: true, IcmpEnabled: true},
		{DisplayName: "n", IPAddresses: []string{"", "x"}, Peers: []PeerConnectionInfo{{}, {Transport: "ws"}}, Shells: []string{"", "zsh"},
			ForwardListeners: []ForwardListenerInfo{{}, {Key: "kk", Address: "aa"}}},
	}
}

func c05SmallRouteAdvertises() []*RouteAdvertise {
	rl := c05RouteLists()
	return []*RouteAdvertise{
		{},
		{OriginAgent: c05ID(1), OriginDisplayName: "o", Sequence: 1, Routes: rl[1], Path: c05IDs(1), SeenBy: c05IDs(1)},
		{OriginAgent: c05ID(0xff), OriginDisplayName: "oo", Sequence: ^uint64(0), Routes: rl[12], Path: c05IDs(2), SeenBy: c05IDs(2)},
		{OriginAgent: c05ID(2), Routes: rl[5], EncPath: &EncryptedData{Encrypted: true, Data: c05Bytes(40)}, SeenBy: c05IDs(1)},
	}
}

func c05SmallWithdraws() []*RouteWithdraw {
	wl := c05WithdrawRouteLists()
	return []*RouteWithdraw{
		{},
		{OriginAgent: c05ID(1), Sequence: 1, Routes: wl[1], SeenBy: c05IDs(1)},
		{OriginAgent: c05ID(0xff), Sequence: ^uint64(0), Routes: wl[5], SeenBy: c05IDs(2)},
	}
}

func c05SmallNodeInfoAdvertises() []*NodeInfoAdvertise {
	ni := c05SmallNodeInfos()
	return []*NodeInfoAdvertise{
		{Info: *ni[0]},
		{OriginAgent: c05ID(1), Sequence: 1, Info: *ni[1], SeenBy: c05IDs(1)},
		{OriginAgent: c05ID(0xff), Sequence: ^uint64(0), Info: *ni[2], SeenBy: c05IDs(2)},
		{OriginAgent: c05ID(3), Sequence: 2, EncInfo: &EncryptedData{Encrypted: true, Data: c05Bytes(60)}, SeenBy: c05IDs(1)},
	}
}

func c05QueuedStates(thorough bool) []any {
	ras := c05SmallRouteAdvertises()
	ws := c05SmallWithdraws()
	nis := c05SmallNodeInfoAdvertises()
	routeVars := [][]RouteAdvertise{nil, {*ras[1]}, {*ras[2], *ras[3]}}
	wdVars := [][]RouteWithdraw{nil, {*ws[1]}, {*ws[2], *ws[0]}}
	niVars := [][]NodeInfoAdvertise{nil, {*nis[1]}, {*nis[2], *nis[3]}}
	var sleeps []*SleepCommand
	sleeps = append(sleeps, nil)
	seenLens := []int{0, 1, 2, 3, 4}
	if thorough {
		seenLens = []int{0, 1, 2, 3, 4, 5, 255}
	}
	for _, sig := range []int{0, 1, 2, 3} {
		for _, n := range seenLens {
			sleeps = append(sleeps, &SleepCommand{OriginAgent: c05ID(9), CommandID: 5, Timestamp: 6, Signature: c05Sig(sig), SeenBy: c05IDs(n)})
		}
	}
	var wakes []*WakeCommand
	wakes = append(wakes, nil)
	for _, sig := range []int{0, 1} {
		for _, n := range []int{0, 1, 2} {
			wakes = append(wakes, &WakeCommand{OriginAgent: c05ID(8), CommandID: 7, Timestamp: 8, Signature: c05Sig(sig), SeenBy: c05IDs(n)})
		}
	}
	var out []any
	// simplest first: commands vary in the outer loops only after the list parts
	for _, sl := range sleeps {
		for _, wk := range wakes {
			for _, rv := range routeVars {
				for _, wv := range wdVars {
					for _, nv := range niVars {
						out = append(out, &QueuedState{Routes: rv, Withdraws: wv, NodeInfos: nv, SleepCmd: sl, WakeCmd: wk})
					}
				}
			}
		}
	}
	return out
}

// c05QueuedSeeds: each-choice selection of the QueuedState corpus for mutation -- every sleep
// variant (<= 3 SeenBy) alone and followed by an unsigned wake, every wake variant alone, every
// single list part without and with both commands, and everything together.
func c05QueuedSeeds() []any {
	var out []any
	for _, m := range c05QueuedStates(false) {
		q := m.(*QueuedState)
		lists := 0
		big := false
		for _, n := range []int{len(q.Routes), len(q.Withdraws), len(q.NodeInfos)} {
			if n > 0 {
				lists++
			}
			if n > 1 {
				big = true
			}
		}
		sl, wk := q.SleepCmd, q.WakeCmd
		plainWake := wk != nil && wk.IsZeroSignature() && len(wk.SeenBy) == 0
		plainSleep := sl != nil && sl.IsZeroSignature() && len(sl.SeenBy) == 0
		keep := false
		switch {
		case lists == 0 && sl != nil && len(sl.SeenBy) <= 3 && (wk == nil || plainWake):
			keep = true
		case lists == 0 && sl == nil:
			keep = true // every wake variant alone, and the empty state
		case lists == 1 && !big && ((sl == nil && wk == nil) || (plainSleep && plainWake)):
			keep = true
		case lists == 3 && !big && plainSleep && plainWake:
			keep = true
		}
		if keep {
			out = append(out, m)
		}
	}
	return out
}

type c05Hostile struct {
	codec, label string
	in           []byte
}

// inputs whose count fields promise far more elements than the input holds
func c05HostileCounts() []c05Hostile {
	pad := func(b []byte, n int) []byte {
		for len(b) < n {
			b = append(b, 0)
		}
		return b
	}
	return []c05Hostile{
		{"QueuedState", "route-count", []byte{0xff, 0xff, 0, 0, 0, 0, 0, 0}},
		{"QueuedState", "withdraw-count", []byte{0, 0, 0xff, 0xff, 0, 0, 0, 0}},
		{"QueuedState", "nodeinfo-count", []byte{0, 0, 0, 0, 0xff, 0xff, 0, 0}},
		{"PeerHello", "capability-count", pad(append(make([]byte, 26), 0, 0xff), 28)},
		{"RouteAdvertise", "route-count", pad(append(make([]byte, 25), 0xff), 28)},
		{"RouteWithdraw", "route-count", pad(append(make([]byte, 24), 0xff), 26)},
		{"NodeInfo", "ip-count", pad(append(make([]byte, 13), 0xff), 5+EphemeralKeySize)},
		{"Path", "id-count", []byte{0xff}},
		{"ControlRequest", "data-length", pad(append(make([]byte, 26), 0xff, 0xff, 0xff, 0xff), 30)},
		{"ControlResponse", "data-length", append(make([]byte, 10), 0xff, 0xff)},
		{"UDPDatagram", "data-length", []byte{AddrTypeIPv4, 0, 0, 0, 0, 0, 0, 0xff, 0xff}},
		{"ICMPEcho", "data-length", []byte{0, 0, 0, 0, 0, 0, 0xff, 0xff}},
		{"EncryptedData", "data-length", []byte{0, 0xff, 0xff}},
		{"Frame", "payload-length", pad([]byte{0, 0, 0xff, 0xff, 0xff, 0xff}, HeaderSize)},
		{"Frame", "payload-length-max", pad([]byte{0, 0, 0, 0, 0x40, 0x00}, HeaderSize)},
	}
}

// ---- codec table -----------------------------------------------------------------------------

func c05List[T any](l []*T) []any {
	out := make([]any, len(l))
	for i, x := range l {
		out[i] = x
	}
	return out
}

func c05Codecs() []c05Codec {
	var cs []c05Codec
	add := func(name string, dec func([]byte) (any, error), enc func(any) []byte, msgs func(bool) []any, seeds func(bool) []any) {
		cs = append(cs, c05Codec{name: name, dec: dec, enc: enc, msgs: msgs, seeds: seeds})
	}
	// first keeps the first n (thorough: 3n) messages of a corpus as mutation seeds (corpora are ordered simplest first)
	first := func(f func(bool) []any, n int) func(bool) []any {
		return func(t bool) []any {
			l := f(t)
			k := n
			if t {
				k = n * 3
			}
			if len(l) > k {
				l = l[:k]
			}
			return l
		}
	}

	// Frame
	frames := func(thorough bool) []any {
		var out []any
		lens := []int{0, 1, 2, 255, MaxPayloadSize - 1, MaxPayloadSize}
		for _, n := range lens {
			for _, ty := range []uint8{0, 1, 0x7f, 0xff} {
				for _, fl := range c05U8 {
					for _, id := range c05U64 {
						out = append(out, &Frame{Type: ty, Flags: fl, StreamID: id, Payload: c05Bytes(n)})
					}
				}
			}
		}
		return out
	}
	add("Frame", func(b []byte) (any, error) { return c05NilIfErr(Decode(b)) }, func(v any) []byte {
		b, err := v.(*Frame).Encode()
		if err != nil {
			panic("Frame.Encode: " + err.Error())
		}
		return b
	}, frames, func(t bool) []any {
		return []any{&Frame{}, &Frame{Type: 1, Flags: 1, StreamID: 1, Payload: []byte{9}}, &Frame{Type: 0xff, Flags: 0xff, StreamID: ^uint64(0), Payload: c05Bytes(2)},
			&Frame{Type: FrameQueuedState, Payload: c05Bytes(40)}}
	})

	// PeerHello
	capVars := func() [][]string {
		rep := func(n int, s string) []string {
			l := make([]string, n)
			for i := range l {
				l[i] = s
			}
			return l
		}
		return [][]string{nil, {""}, {"a"}, {"a", ""}, {c05Str(255)}, rep(255, ""), rep(255, "ab")}
	}
	hellos := func(thorough bool) []any {
		var out []any
		for _, caps := range capVars() {
			for _, dn := range []int{0, 1, 255} {
				for _, v := range c05U16 {
					for _, id := range []byte{0, 1, 0xff} {
						for _, ts := range c05U64 {
							out = append(out, &PeerHello{Version: v, AgentID: c05ID(id), Timestamp: ts, Capabilities: caps, DisplayName: c05Str(dn)})
						}
					}
				}
			}
		}
		return out
	}
	add("PeerHello", func(b []byte) (any, error) { return c05NilIfErr(DecodePeerHello(b)) }, func(v any) []byte { return v.(*PeerHello).Encode() }, hellos,
		func(t bool) []any {
			return []any{&PeerHello{}, &PeerHello{Version: 1, AgentID: c05ID(1), Timestamp: 1, Capabilities: []string{"a"}, DisplayName: "d"},
				&PeerHello{Version: 0xffff, AgentID: c05ID(0xff), Timestamp: ^uint64(0), Capabilities: []string{"a", "", "bc"}, DisplayName: "dn"}}
		})

	// StreamOpen / UDPOpen
	opens := func(mk func(req uint64, a c05Addr, port uint16, ttl uint8, path []identity.AgentID, key [EphemeralKeySize]byte) any) func(bool) []any {
		return func(thorough bool) []any {
			var out []any
			for _, a := range c05Addrs() {
				for _, pl := range c05Lens {
					for _, req := range c05U64 {
						for _, port := range c05U16 {
							for _, ttl := range c05U8 {
								for k := 0; k < 3; k++ {
									out = append(out, mk(req, a, port, ttl, c05IDs(pl), c05Key(k)))
								}
							}
						}
					}
				}
			}
			return out
		}
	}
	openSeeds := func(mk func(req uint64, a c05Addr, port uint16, ttl uint8, path []identity.AgentID, key [EphemeralKeySize]byte) any) func(bool) []any {
		return func(bool) []any {
			as := c05Addrs()
			return []any{mk(0, as[0], 0, 0, nil, c05Key(0)), mk(1, as[2], 1, 1, c05IDs(1), c05Key(2)), mk(^uint64(0), as[4], 0xffff, 0xff, c05IDs(2), c05Key(1)),
				mk(2, as[3], 80, 8, nil, c05Key(2)), mk(2, as[5], 80, 8, c05IDs(1), c05Key(2))}
		}
	}
	mkSO := func(req uint64, a c05Addr, port uint16, ttl uint8, path []identity.AgentID, key [EphemeralKeySize]byte) any {
		return &StreamOpen{RequestID: req, AddressType: a.t, Address: a.a, Port: port, TTL: ttl, RemainingPath: path, EphemeralPubKey: key}
	}
	mkUO := func(req uint64, a c05Addr, port uint16, ttl uint8, path []identity.AgentID, key [EphemeralKeySize]byte) any {
		return &UDPOpen{RequestID: req, AddressType: a.t, Address: a.a, Port: port, TTL: ttl, RemainingPath: path, EphemeralPubKey: key}
	}
	add("StreamOpen", func(b []byte) (any, error) { return c05NilIfErr(DecodeStreamOpen(b)) }, func(v any) []byte { return v.(*StreamOpen).Encode() }, opens(mkSO), openSeeds(mkSO))
	add("UDPOpen", func(b []byte) (any, error) { return c05NilIfErr(DecodeUDPOpen(b)) }, func(v any) []byte { return v.(*UDPOpen).Encode() }, opens(mkUO), openSeeds(mkUO))

	// StreamOpenAck / UDPOpenAck
	acks := func(mk func(req uint64, a c05Addr, port uint16, key [EphemeralKeySize]byte) any) func(bool) []any {
		return func(bool) []any {
			var out []any
			for _, a := range c05BoundAddrs() {
				for _, req := range c05U64 {
					for _, port := range c05U16 {
						for k := 0; k < 3; k++ {
							out = append(out, mk(req, a, port, c05Key(k)))
						}
					}
				}
			}
			return out
		}
	}
	mkSA := func(req uint64, a c05Addr, port uint16, key [EphemeralKeySize]byte) any {
		return &StreamOpenAck{RequestID: req, BoundAddrType: a.t, BoundAddr: a.a, BoundPort: port, EphemeralPubKey: key}
	}
	mkUA := func(req uint64, a c05Addr, port uint16, key [EphemeralKeySize]byte) any {
		return &UDPOpenAck{RequestID: req, BoundAddrType: a.t, BoundAddr: a.a, BoundPort: port, EphemeralPubKey: key}
	}
	add("StreamOpenAck", func(b []byte) (any, error) { return c05NilIfErr(DecodeStreamOpenAck(b)) }, func(v any) []byte { return v.(*StreamOpenAck).Encode() }, acks(mkSA), first(acks(mkSA), 6))
	add("UDPOpenAck", func(b []byte) (any, error) { return c05NilIfErr(DecodeUDPOpenAck(b)) }, func(v any) []byte { return v.(*UDPOpenAck).Encode() }, acks(mkUA), first(acks(mkUA), 6))

	// *Err
	errsOf := func(mk func(req uint64, code uint16, msg string) any) func(bool) []any {
		return func(bool) []any {
			var out []any
			for _, n := range c05Lens {
				for _, req := range c05U64 {
					for _, code := range c05U16 {
						out = append(out, mk(req, code, c05Str(n)))
					}
				}
			}
			return out
		}
	}
	mkSE := func(req uint64, code uint16, msg string) any {
		return &StreamOpenErr{RequestID: req, ErrorCode: code, Message: msg}
	}
	mkUE := func(req uint64, code uint16, msg string) any {
		return &UDPOpenErr{RequestID: req, ErrorCode: code, Message: msg}
	}
	mkIE := func(req uint64, code uint16, msg string) any {
		return &ICMPOpenErr{RequestID: req, ErrorCode: code, Message: msg}
	}
	add("StreamOpenErr", func(b []byte) (any, error) { return c05NilIfErr(DecodeStreamOpenErr(b)) }, func(v any) []byte { return v.(*StreamOpenErr).Encode() }, errsOf(mkSE), first(errsOf(mkSE), 27))
	add("UDPOpenErr", func(b []byte) (any, error) { return c05NilIfErr(DecodeUDPOpenErr(b)) }, func(v any) []byte { return v.(*UDPOpenErr).Encode() }, errsOf(mkUE), first(errsOf(mkUE), 27))
	add("ICMPOpenErr", func(b []byte) (any, error) { return c05NilIfErr(DecodeICMPOpenErr(b)) }, func(v any) []byte { return v.(*ICMPOpenErr).Encode() }, errsOf(mkIE), first(errsOf(mkIE), 27))

	// StreamReset, Keepalive, UDPClose, ICMPClose
	add("StreamReset", func(b []byte) (any, error) { return c05NilIfErr(DecodeStreamReset(b)) }, func(v any) []byte { return v.(*StreamReset).Encode() },
		func(bool) []any { return []any{&StreamReset{0}, &StreamReset{1}, &StreamReset{0xffff}} }, func(bool) []any { return []any{&StreamReset{0}, &StreamReset{1}, &StreamReset{0xffff}} })
	add("Keepalive", func(b []byte) (any, error) { return c05NilIfErr(DecodeKeepalive(b)) }, func(v any) []byte { return v.(*Keepalive).Encode() },
		func(bool) []any { return []any{&Keepalive{0}, &Keepalive{1}, &Keepalive{^uint64(0)}} }, func(bool) []any { return []any{&Keepalive{0}, &Keepalive{1}, &Keepalive{^uint64(0)}} })
	closes := func(bool) []any {
		return []any{&UDPClose{0}, &UDPClose{1}, &UDPClose{4}, &UDPClose{0xff}}
	}
	add("UDPClose", func(b []byte) (any, error) { return c05NilIfErr(DecodeUDPClose(b)) }, func(v any) []byte { return v.(*UDPClose).Encode() }, closes, closes)
	icloses := func(bool) []any {
		return []any{&ICMPClose{0}, &ICMPClose{1}, &ICMPClose{2}, &ICMPClose{0xff}}
	}
	add("ICMPClose", func(b []byte) (any, error) { return c05NilIfErr(DecodeICMPClose(b)) }, func(v any) []byte { return v.(*ICMPClose).Encode() }, icloses, icloses)

	// RouteAdvertise
	type pathVar struct {
		path []identity.AgentID
		enc  *EncryptedData
	}
	pathVars := []pathVar{{nil, nil}, {c05IDs(1), nil}, {c05IDs(2), nil}, {c05IDs(255), nil},
		{nil, &EncryptedData{Encrypted: true, Data: nil}}, {nil, &EncryptedData{Encrypted: true, Data: c05Bytes(1)}}, {nil, &EncryptedData{Encrypted: true, Data: c05Bytes(60)}}}
	advs := func(thorough bool) []any {
		var out []any
		origins := []byte{0, 0x5a}
		seqs := []uint64{0, ^uint64(0)}
		if thorough {
			origins = []byte{0, 1, 0xff}
			seqs = c05U64
		}
		for _, rl := range c05RouteLists() {
			for _, pv := range pathVars {
				for _, sb := range c05Lens {
					for _, dn := range []int{0, 1, 255} {
						for _, o := range origins {
							for _, seq := range seqs {
								out = append(out, &RouteAdvertise{OriginAgent: c05ID(o), OriginDisplayName: c05Str(dn), Sequence: seq, Routes: rl, Path: pv.path, EncPath: pv.enc, SeenBy: c05IDs(sb)})
							}
						}
					}
				}
			}
		}
		return out
	}
	add("RouteAdvertise", func(b []byte) (any, error) { return c05NilIfErr(DecodeRouteAdvertise(b)) }, func(v any) []byte { return v.(*RouteAdvertise).Encode() }, advs,
		func(bool) []any {
			out := c05List(c05SmallRouteAdvertises())
			rl := c05RouteLists()
			for _, i := range []int{2, 3, 4, 5, 7, 8, 10, 11} {
				out = append(out, &RouteAdvertise{OriginAgent: c05ID(4), OriginDisplayName: "x", Sequence: 3, Routes: rl[i], Path: c05IDs(1), SeenBy: c05IDs(1)})
			}
			return out
		})

	// RouteWithdraw
	wds := func(bool) []any {
		var out []any
		for _, rl := range c05WithdrawRouteLists() {
			for _, sb := range c05Lens {
				for _, o := range []byte{0, 0x5a} {
					for _, seq := range c05U64 {
						out = append(out, &RouteWithdraw{OriginAgent: c05ID(o), Sequence: seq, Routes: rl, SeenBy: c05IDs(sb)})
					}
				}
			}
		}
		return out
	}
	add("RouteWithdraw", func(b []byte) (any, error) { return c05NilIfErr(DecodeRouteWithdraw(b)) }, func(v any) []byte { return v.(*RouteWithdraw).Encode() }, wds,
		func(bool) []any {
			out := c05List(c05SmallWithdraws())
			wl := c05WithdrawRouteLists()
			for _, i := range []int{2, 3, 4} {
				out = append(out, &RouteWithdraw{OriginAgent: c05ID(4), Sequence: 3, Routes: wl[i], SeenBy: c05IDs(1)})
			}
			return out
		})

	// EncryptedData
	eds := func(bool) []any {
		var out []any
		for _, n := range []int{0, 1, 2, 255, 65535} {
			for _, e := range []bool{false, true} {
				out = append(out, &EncryptedData{Encrypted: e, Data: c05Bytes(n)})
			}
		}
		return out
	}
	add("EncryptedData", func(b []byte) (any, error) {
		e, _, err := DecodeEncryptedData(b)
		return c05NilIfErr(e, err)
	}, func(v any) []byte { return EncodeEncryptedData(v.(*EncryptedData)) }, eds, first(eds, 6))

	// NodeInfo
	add("NodeInfo", func(b []byte) (any, error) { return c05NilIfErr(DecodeNodeInfo(b)) }, func(v any) []byte { return EncodeNodeInfo(v.(*NodeInfo)) },
		func(t bool) []any { return c05List(c05NodeInfos(t)) }, func(bool) []any { return c05List(c05SmallNodeInfos()) })

	// Path
	paths := func(bool) []any {
		var out []any
		for _, n := range c05Lens {
			out = append(out, c05IDs(n))
		}
		return out
	}
	add("Path", func(b []byte) (any, error) {
		p, err := DecodePath(b)
		if err != nil {
			return nil, err
		}
		return p, nil
	}, func(v any) []byte { return EncodePath(v.([]identity.AgentID)) }, paths, first(paths, 3))

	// NodeInfoAdvertise
	nias := func(thorough bool) []any {
		var out []any
		infos := c05SmallNodeInfos()
		big := c05NodeInfos(false)
		infos = append(infos, big[len(big)-1], big[len(big)/2])
		type iv struct {
			info NodeInfo
			enc  *EncryptedData
		}
		var ivs []iv
		for _, i := range infos {
			ivs = append(ivs, iv{*i, nil})
		}
		for _, n := range []int{0, 1, 100} {
			ivs = append(ivs, iv{NodeInfo{}, &EncryptedData{Encrypted: true, Data: c05Bytes(n)}})
		}
		for _, v := range ivs {
			for _, sb := range c05Lens {
				for _, o := range []byte{0, 0x5a} {
					for _, seq := range c05U64 {
						out = append(out, &NodeInfoAdvertise{OriginAgent: c05ID(o), Sequence: seq, Info: v.info, EncInfo: v.enc, SeenBy: c05IDs(sb)})
					}
				}
			}
		}
		return out
	}
	add("NodeInfoAdvertise", func(b []byte) (any, error) { return c05NilIfErr(DecodeNodeInfoAdvertise(b)) }, func(v any) []byte { return v.(*NodeInfoAdvertise).Encode() }, nias,
		func(bool) []any { return c05List(c05SmallNodeInfoAdvertises()) })

	// ControlRequest / ControlResponse
	creqs := func(bool) []any {
		var out []any
		for _, dl := range []int{0, 1, 2, 255, 16000} {
			for _, pl := range c05Lens {
				for _, req := range c05U64 {
					for _, ct := range c05U8 {
						for _, tg := range []byte{0, 0xff} {
							out = append(out, &ControlRequest{RequestID: req, ControlType: ct, TargetAgent: c05ID(tg), Path: c05IDs(pl), Data: c05Bytes(dl)})
						}
					}
				}
			}
		}
		return out
	}
	add("ControlRequest", func(b []byte) (any, error) { return c05NilIfErr(DecodeControlRequest(b)) }, func(v any) []byte { return v.(*ControlRequest).Encode() }, creqs,
		func(bool) []any {
			return []any{&ControlRequest{}, &ControlRequest{RequestID: 1, ControlType: 1, TargetAgent: c05ID(1), Path: c05IDs(1), Data: []byte{1}},
				&ControlRequest{RequestID: ^uint64(0), ControlType: 0xff, TargetAgent: c05ID(0xff), Path: c05IDs(2), Data: c05Bytes(2)}}
		})
	cresps := func(bool) []any {
		var out []any
		for _, dl := range []int{0, 1, 2, 255, MaxPayloadSize - 12} {
			for _, req := range c05U64 {
				for _, ct := range c05U8 {
					for _, ok := range []bool{false, true} {
						out = append(out, &ControlResponse{RequestID: req, ControlType: ct, Success: ok, Data: c05Bytes(dl)})
					}
				}
			}
		}
		return out
	}
	add("ControlResponse", func(b []byte) (any, error) { return c05NilIfErr(DecodeControlResponse(b)) }, func(v any) []byte { return v.(*ControlResponse).Encode() }, cresps, first(cresps, 40))

	// UDPDatagram
	dgrams := func(bool) []any {
		var out []any
		for _, dl := range []int{0, 1, 2, MaxUDPDatagramSize, 65535} {
			for _, a := range c05Addrs() {
				for _, port := range c05U16 {
					out = append(out, &UDPDatagram{AddressType: a.t, Address: a.a, Port: port, Data: c05Bytes(dl)})
				}
			}
		}
		return out
	}
	add("UDPDatagram", func(b []byte) (any, error) { return c05NilIfErr(DecodeUDPDatagram(b)) }, func(v any) []byte { return v.(*UDPDatagram).Encode() }, dgrams,
		func(bool) []any {
			as := c05Addrs()
			return []any{&UDPDatagram{AddressType: as[0].t, Address: as[0].a}, &UDPDatagram{AddressType: as[2].t, Address: as[2].a, Port: 1, Data: []byte{1}},
				&UDPDatagram{AddressType: as[4].t, Address: as[4].a, Port: 0xffff, Data: c05Bytes(2)}, &UDPDatagram{AddressType: as[3].t, Address: as[3].a, Port: 53, Data: c05Bytes(3)}}
		})

	// ICMP
	iopens := func(bool) []any {
		var out []any
		for _, il := range []int{0, 4, 16, 255} {
			for _, pl := range c05Lens {
				for _, req := range c05U64 {
					for _, ttl := range c05U8 {
						for k := 0; k < 2; k++ {
							out = append(out, &ICMPOpen{RequestID: req, DestIP: c05Bytes(il), TTL: ttl, RemainingPath: c05IDs(pl), EphemeralPubKey: c05Key(k + 1)})
						}
					}
				}
			}
		}
		return out
	}
	add("ICMPOpen", func(b []byte) (any, error) { return c05NilIfErr(DecodeICMPOpen(b)) }, func(v any) []byte { return v.(*ICMPOpen).Encode() }, iopens,
		func(bool) []any {
			return []any{&ICMPOpen{}, &ICMPOpen{RequestID: 1, DestIP: c05Bytes(4), TTL: 1, RemainingPath: c05IDs(1), EphemeralPubKey: c05Key(2)},
				&ICMPOpen{RequestID: ^uint64(0), DestIP: c05Bytes(16), TTL: 0xff, RemainingPath: c05IDs(2), EphemeralPubKey: c05Key(1)}}
		})
	iacks := func(bool) []any {
		var out []any
		for _, req := range c05U64 {
			for k := 0; k < 3; k++ {
				out = append(out, &ICMPOpenAck{RequestID: req, EphemeralPubKey: c05Key(k)})
			}
		}
		return out
	}
	add("ICMPOpenAck", func(b []byte) (any, error) { return c05NilIfErr(DecodeICMPOpenAck(b)) }, func(v any) []byte { return v.(*ICMPOpenAck).Encode() }, iacks, first(iacks, 3))
	echos := func(bool) []any {
		var out []any
		for _, dl := range []int{0, 1, MaxICMPEchoDataSize, 65535} {
			for _, sl := range []int{0, 4, 16, 255} {
				for _, id := range c05U16 {
					for _, seq := range c05U16 {
						for _, rep := range []bool{false, true} {
							out = append(out, &ICMPEcho{Identifier: id, Sequence: seq, IsReply: rep, SrcIP: c05Bytes(sl), Data: c05Bytes(dl)})
						}
					}
				}
			}
		}
		return out
	}
	add("ICMPEcho", func(b []byte) (any, error) { return c05NilIfErr(DecodeICMPEcho(b)) }, func(v any) []byte { return v.(*ICMPEcho).Encode() }, echos,
		func(bool) []any {
			return []any{&ICMPEcho{}, &ICMPEcho{Identifier: 1, Sequence: 1, IsReply: true, SrcIP: c05Bytes(4), Data: []byte{1}},
				&ICMPEcho{Identifier: 0xffff, Sequence: 0xffff, SrcIP: c05Bytes(16), Data: c05Bytes(2)}}
		})

	// Sleep / Wake
	sleeps := func(bool) []any {
		var out []any
		for _, sig := range []int{0, 1, 2, 3} {
			for _, sb := range c05Lens {
				for _, o := range []byte{0, 0x5a} {
					for _, id := range c05U64 {
						for _, ts := range c05U64 {
							out = append(out, &SleepCommand{OriginAgent: c05ID(o), CommandID: id, Timestamp: ts, Signature: c05Sig(sig), SeenBy: c05IDs(sb)})
						}
					}
				}
			}
		}
		return out
	}
	wakes := func(bool) []any {
		var out []any
		for _, sig := range []int{0, 1, 2, 3} {
			for _, sb := range c05Lens {
				for _, o := range []byte{0, 0x5a} {
					for _, id := range c05U64 {
						for _, ts := range c05U64 {
							out = append(out, &WakeCommand{OriginAgent: c05ID(o), CommandID: id, Timestamp: ts, Signature: c05Sig(sig), SeenBy: c05IDs(sb)})
						}
					}
				}
			}
		}
		return out
	}
	add("SleepCommand", func(b []byte) (any, error) { return c05NilIfErr(DecodeSleepCommand(b)) }, func(v any) []byte { return v.(*SleepCommand).Encode() }, sleeps,
		func(bool) []any {
			return []any{&SleepCommand{}, &SleepCommand{OriginAgent: c05ID(1), CommandID: 1, Timestamp: 1, Signature: c05Sig(2), SeenBy: c05IDs(1)},
				&SleepCommand{OriginAgent: c05ID(0xff), CommandID: ^uint64(0), Timestamp: ^uint64(0), Signature: c05Sig(1), SeenBy: c05IDs(2)}}
		})
	add("WakeCommand", func(b []byte) (any, error) { return c05NilIfErr(DecodeWakeCommand(b)) }, func(v any) []byte { return v.(*WakeCommand).Encode() }, wakes,
		func(bool) []any {
			return []any{&WakeCommand{}, &WakeCommand{OriginAgent: c05ID(1), CommandID: 1, Timestamp: 1, Signature: c05Sig(2), SeenBy: c05IDs(1)},
				&WakeCommand{OriginAgent: c05ID(0xff), CommandID: ^uint64(0), Timestamp: ^uint64(0), Signature: c05Sig(1), SeenBy: c05IDs(2)}}
		})

	// QueuedState
	add("QueuedState", func(b []byte) (any, error) { return c05NilIfErr(DecodeQueuedState(b)) }, func(v any) []byte { return v.(*QueuedState).Encode() },
		c05QueuedStates, func(bool) []any { return c05QueuedSeeds() })

	return cs
}

// c05NilIfErr turns a typed nil pointer + error into (nil, err) and keeps (msg, nil).
func c05NilIfErr[T any](v *T, err error) (any, error) {
	if err != nil {
		return nil, err
	}
	return v, nil
}
