//go:build verif

package protocol

// C05 -- wire codecs are lossless and total.
//
// Engine E5 (nested loops over explicit boundary alphabets; corpora in corpus_test.go).
//
// (a) LOSSLESS. For every codec (frame header + 27 payload kinds) every message of the
//     boundary corpus (integers 0/1/max, strings and lists of length 0/1/2/255, optional
//     parts present/absent, signed and unsigned sleep/wake commands, QueuedState with every
//     subset of its five parts) is encoded with the real encoder and decoded with the real
//     decoder; the result must be equivalent to the original (deep equality where nil and
//     empty slices are the same and where the plaintext and the EncryptedData views of a
//     path / node info are the same message).
// (b) TOTAL. Every seed encoding x {itself, every truncation, every single-byte
//     substitution from {00,01,7f,80,ff} at every offset, 1-2 byte extensions}, every
//     byte string of length <= 2 and of length 3-4 over an 8-value alphabet through every
//     decoder, every seed encoding through every *other* decoder, and frame streams through
//     FrameReader with every split of the stream into two reads and every truncation.
//     Oracle: no panic; an accepted input re-encodes without panic, the re-encoding is
//     accepted and decodes to an equivalent message; the heap allocated by ONE decode call
//     (runtime.MemStats.TotalAlloc delta, single goroutine, GC off) is at most
//     64 KiB + 64 x len(input).
//
// Allocation is measured per batch of 64 decode calls between two ReadMemStats; a batch whose
// total is <= 64 KiB proves every member is; otherwise every member is decoded again between
// its own pair of ReadMemStats (decoders are pure, re-running them is harmless). TotalAlloc under
// ReadMemStats is exact (it flushes the per-P caches) and the test runs on one goroutine
// with the collector disabled, so the measurement is deterministic; the bound is two orders
// of magnitude above what any in-proportion decode needs.

import (
	"bytes"
	"fmt"
	"io"
	"reflect"
	"runtime"
	"runtime/debug"
	"testing"

	"github.com/postalsys/muti-metroo/internal/vmc"
)

type c05Codec struct {
	name  string
	dec   func([]byte) (any, error)
	enc   func(any) []byte
	msgs  func(thorough bool) []any // boundary corpus, simplest first (part a)
	seeds func(thorough bool) []any // messages whose encodings are mutated (part b)
}

type c05Replay struct {
	Part  string `json:"part"` // roundtrip | totality | stream | alloc
	Codec string `json:"codec"`
	Seed  int    `json:"seed,omitempty"`  // index into the codec's corpus (roundtrip)
	Input []byte `json:"input,omitempty"` // bytes fed to the decoder (totality, alloc)
	Split int    `json:"split,omitempty"`
	Kind  string `json:"kind,omitempty"`
	Tier  string `json:"tier,omitempty"` // corpus indices depend on the tier
}

const (
	c05AllocBase   = 64 << 10
	c05AllocPerByt = 64
)

func c05Bound(n int) uint64 { return uint64(c05AllocBase + c05AllocPerByt*n) }

// ---- equivalence -------------------------------------------------------------------------

// c05Diff returns "" when a and b are equivalent, else the path of the first difference.
func c05Diff(a, b reflect.Value, path string) string {
	if a.Type() != b.Type() {
		return path + "(type)"
	}
	switch a.Kind() {
	case reflect.Ptr:
		if a.IsNil() || b.IsNil() {
			if a.IsNil() == b.IsNil() {
				return ""
			}
			return path
		}
		return c05Diff(a.Elem(), b.Elem(), path)
	case reflect.Struct:
		for i := 0; i < a.NumField(); i++ {
			p := a.Type().Field(i).Name
			if path != "" {
				p = path + "." + p
			}
			if d := c05Diff(a.Field(i), b.Field(i), p); d != "" {
				return d
			}
		}
		return ""
	case reflect.Slice:
		if a.Len() != b.Len() { // nil and empty are the same message
			return path + "(len)"
		}
		if a.Type().Elem().Kind() == reflect.Uint8 {
			if !bytes.Equal(a.Bytes(), b.Bytes()) {
				return path
			}
			return ""
		}
		for i := 0; i < a.Len(); i++ {
			if d := c05Diff(a.Index(i), b.Index(i), fmt.Sprintf("%s[%d]", path, i)); d != "" {
				return d
			}
		}
		return ""
	case reflect.Array:
		for i := 0; i < a.Len(); i++ {
			if d := c05Diff(a.Index(i), b.Index(i), path); d != "" {
				return d
			}
		}
		return ""
	default:
		if a.Interface() != b.Interface() {
			return path
		}
		return ""
	}
}

func c05CanonRA(c *RouteAdvertise) {
	if c.EncPath == nil {
		c.EncPath = &EncryptedData{Encrypted: false, Data: EncodePath(c.Path)}
	}
	if c.EncPath.Encrypted {
		c.Path = nil // the wire carries only the blob
	}
}

func c05CanonNIA(c *NodeInfoAdvertise) {
	if c.EncInfo == nil {
		c.EncInfo = &EncryptedData{Encrypted: false, Data: EncodeNodeInfo(&c.Info)}
	}
	if c.EncInfo.Encrypted {
		c.Info = NodeInfo{}
	}
}

// c05Canon maps the two in-memory views of the same wire message (plaintext field vs.
// EncryptedData wrapper) onto one.
func c05Canon(v any) any {
	switch t := v.(type) {
	case *RouteAdvertise:
		c := *t
		c05CanonRA(&c)
		return &c
	case *NodeInfoAdvertise:
		c := *t
		c05CanonNIA(&c)
		return &c
	case *QueuedState:
		c := *t
		c.Routes = append([]RouteAdvertise(nil), t.Routes...)
		for i := range c.Routes {
			c05CanonRA(&c.Routes[i])
		}
		c.NodeInfos = append([]NodeInfoAdvertise(nil), t.NodeInfos...)
		for i := range c.NodeInfos {
			c05CanonNIA(&c.NodeInfos[i])
		}
		return &c
	}
	return v
}

func c05Equiv(a, b any) string {
	return c05Diff(reflect.ValueOf(c05Canon(a)), reflect.ValueOf(c05Canon(b)), "")
}

// top-level component of a diff path ("WakeCmd.Signature" -> "WakeCmd")
func c05Top(p string) string {
	for i := 0; i < len(p); i++ {
		if p[i] == '.' || p[i] == '[' || p[i] == '(' {
			if i == 0 {
				return p
			}
			return p[:i]
		}
	}
	if p == "" {
		return "value"
	}
	return p
}

// ---- harness state -------------------------------------------------------------------------

type c05Item struct {
	ci    int // codec index
	kind  string
	in    []byte
	label string // allocation site label for dedicated hostile inputs, else ""
}

type c05Res struct {
	m   any
	err error
	pv  any
}

type c05H struct {
	r       *vmc.Result
	codecs  []c05Codec
	batch   []c05Item
	res     []c05Res
	lastGC  uint64
	ms1     runtime.MemStats
	ms2     runtime.MemStats
	measure int64
}

func (h *c05H) decodeInto(it *c05Item, out *c05Res) {
	defer func() {
		if pv := recover(); pv != nil {
			out.pv = pv
		}
	}()
	out.m, out.err = h.codecs[it.ci].dec(it.in)
}

// allocOf runs the decodes of items[lo:hi] between two ReadMemStats and returns the bytes allocated.
func (h *c05H) allocOf(lo, hi int, keep bool) uint64 {
	var scratch c05Res
	runtime.ReadMemStats(&h.ms1)
	for i := lo; i < hi; i++ {
		if keep {
			h.decodeInto(&h.batch[i], &h.res[i])
		} else {
			scratch = c05Res{}
			h.decodeInto(&h.batch[i], &scratch)
		}
	}
	runtime.ReadMemStats(&h.ms2)
	h.measure++
	return h.ms2.TotalAlloc - h.ms1.TotalAlloc
}

// narrow finds the members of batch[lo:hi] that break their own bound, given what the group allocated.
// A group total <= 64 KiB clears every member; otherwise every member is measured on its own
// (a second decode per member; halving would re-run an expensive offender log2(64) times).
func (h *c05H) narrow(lo, hi int, delta uint64) {
	if delta <= c05AllocBase {
		return // every member allocated at most delta
	}
	for i := lo; i < hi; i++ {
		d := delta
		if hi-lo > 1 {
			d = h.allocOf(i, i+1, false)
		}
		it := h.batch[i]
		if d <= c05Bound(len(it.in)) {
			continue
		}
		// confirm: a genuine disproportionate allocation repeats, a stray allocation by a runtime goroutine does not
		if d2 := h.allocOf(i, i+1, false); d2 < d {
			d = d2
		}
		if d <= c05Bound(len(it.in)) {
			continue
		}
		name := h.codecs[it.ci].name
		site := it.label
		if site == "" {
			site = "grid-" + it.kind
		}
		in := it.in
		if len(in) > 96 {
			in = in[:96]
		}
		h.r.Add("alloc_offenders", 1)
		h.r.Violate("C05/alloc-out-of-proportion/"+name+"/"+site,
			fmt.Sprintf("Decode%s allocated about %.1f MiB for a %d-byte input %x (bound %d bytes)", name, float64(d)/(1<<20), len(it.in), in, c05Bound(len(it.in))),
			c05Replay{Part: "alloc", Codec: name, Input: it.in, Kind: it.kind})
	}
}

func (h *c05H) push(it c05Item) {
	h.batch = append(h.batch, it)
	if len(h.batch) == cap(h.batch) {
		h.flush()
	}
}

func (h *c05H) flush() {
	n := len(h.batch)
	if n == 0 {
		return
	}
	for i := 0; i < n; i++ {
		h.res[i] = c05Res{}
	}
	delta := h.allocOf(0, n, true)
	h.narrow(0, n, delta)
	for i := 0; i < n; i++ {
		h.judge(&h.batch[i], &h.res[i])
	}
	h.batch = h.batch[:0]
	if h.ms2.TotalAlloc-h.lastGC > 256<<20 {
		runtime.GC()
		h.lastGC = h.ms2.TotalAlloc
	}
}

// judge applies the totality oracle to one decoded input.
func (h *c05H) judge(it *c05Item, res *c05Res) {
	r := h.r
	c := &h.codecs[it.ci]
	r.Add("evaluations", 1)
	in := it.in
	show := in
	if len(show) > 64 {
		show = show[:64]
	}
	if res.pv != nil {
		r.Violate("C05/decode-panic/"+c.name, fmt.Sprintf("Decode%s panicked (%v) on %d-byte %s input %x", c.name, res.pv, len(in), it.kind, show),
			c05Replay{Part: "totality", Codec: c.name, Input: in, Kind: it.kind})
		r.Outcome(c.name + "|" + it.kind + "|panic")
		return
	}
	if res.err != nil {
		r.Add("rejected", 1)
		r.Outcome(c.name + "|" + it.kind + "|rejected")
		return
	}
	r.Add("accepted", 1)
	r.Outcome(c.name + "|" + it.kind + "|accepted")
	r.Nontrivial(c.name + "|" + it.kind)
	var y []byte
	var m2 any
	var err2 error
	if pv := c05Try(func() { y = c.enc(res.m) }); pv != nil {
		r.Violate("C05/reencode-panic/"+c.name, fmt.Sprintf("%s decoded from %d-byte %s input %x cannot be re-encoded: %v", c.name, len(in), it.kind, show, pv),
			c05Replay{Part: "totality", Codec: c.name, Input: in, Kind: it.kind})
		return
	}
	if pv := c05Try(func() { m2, err2 = c.dec(y) }); pv != nil {
		r.Violate("C05/decode-panic/"+c.name, fmt.Sprintf("Decode%s panicked (%v) on the re-encoding of an accepted input %x", c.name, pv, show),
			c05Replay{Part: "totality", Codec: c.name, Input: in, Kind: it.kind})
		return
	}
	if err2 != nil {
		r.Violate("C05/reencode-rejected/"+c.name, fmt.Sprintf("%s accepted %d-byte %s input %x but rejects its own re-encoding: %v", c.name, len(in), it.kind, show, err2),
			c05Replay{Part: "totality", Codec: c.name, Input: in, Kind: it.kind})
		return
	}
	if d := c05Equiv(res.m, m2); d != "" {
		r.Violate("C05/reencode-mismatch/"+c.name+"/"+c05Top(d), fmt.Sprintf("%s accepted %d-byte %s input %x; re-encoding and decoding again changes %s", c.name, len(in), it.kind, show, d),
			c05Replay{Part: "totality", Codec: c.name, Input: in, Kind: it.kind})
	}
}

func c05Try(f func()) (pv any) {
	defer func() { pv = recover() }()
	f()
	return nil
}

// offsets to truncate / substitute at: every offset of short encodings, head and tail of long ones
func c05Offsets(n, full int) []int {
	if n <= full {
		o := make([]int, n)
		for i := range o {
			o[i] = i
		}
		return o
	}
	var o []int
	for i := 0; i < full*3/4; i++ {
		o = append(o, i)
	}
	for i := n - full/4; i < n; i++ {
		o = append(o, i)
	}
	return o
}

// ---- (a) round trip ------------------------------------------------------------------------

func (h *c05H) roundTrip(ci, idx int, m any) {
	r := h.r
	c := &h.codecs[ci]
	r.Add("evaluations", 1)
	r.Add("roundtrips", 1)
	var y []byte
	if pv := c05Try(func() { y = c.enc(m) }); pv != nil {
		r.Violate("C05/encode-panic/"+c.name, fmt.Sprintf("encoding corpus message #%d of %s panicked: %v", idx, c.name, pv), c05Replay{Part: "roundtrip", Codec: c.name, Seed: idx, Tier: r.Tier})
		return
	}
	var m2 any
	var err error
	if pv := c05Try(func() { m2, err = c.dec(y) }); pv != nil {
		r.Violate("C05/decode-panic/"+c.name, fmt.Sprintf("Decode%s panicked (%v) on the encoding of corpus message #%d", c.name, pv, idx), c05Replay{Part: "roundtrip", Codec: c.name, Seed: idx, Tier: r.Tier})
		return
	}
	if err != nil {
		r.Violate("C05/roundtrip-rejected/"+c.name, fmt.Sprintf("Decode%s rejects the encoding (%d bytes) of in-limits corpus message #%d: %v", c.name, len(y), idx, err), c05Replay{Part: "roundtrip", Codec: c.name, Seed: idx, Tier: r.Tier})
		return
	}
	if d := c05Equiv(m, m2); d != "" {
		r.Violate("C05/roundtrip-mismatch/"+c.name+"/"+c05Top(d), fmt.Sprintf("%s corpus message #%d %s: encode->decode changes %s", c.name, idx, c05Describe(m), d), c05Replay{Part: "roundtrip", Codec: c.name, Seed: idx, Tier: r.Tier})
		return
	}
	r.Nontrivial(c.name + "|roundtrip")
	r.Outcome(c.name + "|roundtrip|equal")
}

func c05Describe(m any) string {
	if q, ok := m.(*QueuedState); ok {
		s := fmt.Sprintf("{routes:%d withdraws:%d nodeinfos:%d", len(q.Routes), len(q.Withdraws), len(q.NodeInfos))
		if q.SleepCmd != nil {
			s += fmt.Sprintf(" sleep(signed:%v seenBy:%d)", !q.SleepCmd.IsZeroSignature(), len(q.SleepCmd.SeenBy))
		}
		if q.WakeCmd != nil {
			s += fmt.Sprintf(" wake(signed:%v seenBy:%d)", !q.WakeCmd.IsZeroSignature(), len(q.WakeCmd.SeenBy))
		}
		return s + "}"
	}
	s := fmt.Sprintf("%+v", m)
	if len(s) > 160 {
		s = s[:160] + "..."
	}
	return s
}

// ---- FrameReader ---------------------------------------------------------------------------

// c05TwoReads serves data[:split] in the first Read calls and the rest afterwards (never more than asked).
type c05TwoReads struct {
	data  []byte
	pos   int
	split int
}

func (t *c05TwoReads) Read(p []byte) (int, error) {
	if t.pos >= len(t.data) {
		return 0, io.EOF
	}
	end := len(t.data)
	if t.pos < t.split {
		end = t.split
	}
	n := copy(p, t.data[t.pos:end])
	t.pos += n
	return n, nil
}

func (h *c05H) streams(thorough bool) {
	r := h.r
	var frames []*Frame
	for _, pl := range []int{0, 1, 2, 40} {
		for _, ty := range []uint8{0, FrameStreamData, 0xff} {
			frames = append(frames, &Frame{Type: ty, Flags: uint8(pl), StreamID: uint64(pl) * 0x0101010101010101, Payload: c05Bytes(pl)})
		}
	}
	if thorough {
		frames = append(frames, &Frame{Type: 1, StreamID: ^uint64(0), Payload: c05Bytes(255)}, &Frame{Type: 2, Payload: c05Bytes(MaxPayloadSize)})
	}
	readAll := func(data []byte, split int) (got []*Frame, err error, pv any) {
		pv = c05Try(func() {
			fr := NewFrameReader(&c05TwoReads{data: data, split: split})
			for {
				var f *Frame
				f, err = fr.Read()
				if err != nil {
					return
				}
				got = append(got, f)
				if len(got) > 8 {
					return
				}
			}
		})
		return
	}
	for i, f1 := range frames {
		for j, f2 := range frames {
			if !thorough && (i+j)%3 != 0 && i != j { // quick: a fixed third of the ordered pairs plus the diagonal
				continue
			}
			e1, _ := f1.Encode()
			e2, _ := f2.Encode()
			stream := append(append([]byte(nil), e1...), e2...)
			splits := c05Offsets(len(stream)+1, 160)
			for _, sp := range splits {
				r.Add("evaluations", 1)
				r.Add("stream_cases", 1)
				got, err, pv := readAll(stream, sp)
				rp := c05Replay{Part: "stream", Codec: "FrameReader", Input: stream, Split: sp, Kind: "split"}
				if pv != nil {
					r.Violate("C05/decode-panic/FrameReader", fmt.Sprintf("FrameReader panicked: %v", pv), rp)
					continue
				}
				if err != io.EOF || len(got) != 2 || c05Equiv(got[0], f1) != "" || c05Equiv(got[1], f2) != "" {
					r.Violate("C05/stream-reassembly/FrameReader", fmt.Sprintf("two frames (%d+%d bytes) written, stream split at %d: read %d frames, final error %v", len(e1), len(e2), sp, len(got), err), rp)
					continue
				}
				r.Nontrivial("FrameReader|split")
			}
			// every truncation of the stream, each with the split in the middle of what is left
			for _, cut := range c05Offsets(len(stream), 160) {
				r.Add("evaluations", 1)
				r.Add("stream_cases", 1)
				got, err, pv := readAll(stream[:cut], cut/2)
				rp := c05Replay{Part: "stream", Codec: "FrameReader", Input: stream[:cut], Split: cut / 2, Kind: "truncated"}
				if pv != nil {
					r.Violate("C05/decode-panic/FrameReader", fmt.Sprintf("FrameReader panicked on a truncated stream: %v", pv), rp)
					continue
				}
				want := 0
				if cut >= len(e1) {
					want = 1
				}
				// which error is not specified; it must be one, after exactly the complete frames
				ok := err != nil && len(got) == want && (want == 0 || c05Equiv(got[0], f1) == "")
				if !ok {
					r.Violate("C05/stream-truncation/FrameReader", fmt.Sprintf("stream of %d+%d bytes cut at %d: read %d frames, error %v", len(e1), len(e2), cut, len(got), err), rp)
					continue
				}
				r.Outcome("FrameReader|truncated|" + fmt.Sprint(err))
			}
		}
	}
}

// ---- the test ------------------------------------------------------------------------------

func TestVerif_C05(t *testing.T) {
	r := vmc.New("C05", "exploration")
	r.Rule = "(a) every message of the per-codec boundary corpus through Encode->Decode; (b) every seed encoding x {valid, each truncation, each single-byte substitution from {00,01,7f,80,ff}, 1-2 byte extensions}, all byte strings of length <=2 and 3-4 over 8 values through every decoder, seed encodings through every other decoder, FrameReader with every two-read split and every truncation. Non-trivial = the decoder accepted the input (then re-encode/re-decode equivalence is checked); distinct = (codec, input kind)"
	r.Assume("'within wire limits' = string/list lengths fit their 1- or 2-byte prefix, address and prefix lengths match their type/family, RouteWithdraw routes use the fixed-size prefixes its format carries (IPv4 4, IPv6/agent/other 16), forward-route prefixes carry key and target, total size fits the enclosing length field")
	r.Assume("TotalAlloc is read with runtime.ReadMemStats on a single goroutine with the collector disabled; the proportionality bound is 64 KiB + 64 x input length per decode call")
	r.Assume("64-bit int: the int(uint32) conversion in DecodeControlRequest cannot go negative on this platform")

	old := debug.SetGCPercent(-1)
	defer debug.SetGCPercent(old)

	h := &c05H{r: r, codecs: c05Codecs()}
	h.batch = make([]c05Item, 0, 64)
	h.res = make([]c05Res, 64)
	thorough := r.Thorough()
	byName := map[string]int{}
	for i, c := range h.codecs {
		byName[c.name] = i
	}
	r.Info["codecs"] = len(h.codecs)
	r.Info["alloc_bound"] = "64KiB + 64*len(input)"

	var rp c05Replay
	if r.ReplayInto(&rp) {
		switch rp.Part {
		case "roundtrip":
			ci := byName[rp.Codec]
			ms := h.codecs[ci].msgs(rp.Tier == "thorough")
			if rp.Seed >= 0 && rp.Seed < len(ms) {
				h.roundTrip(ci, rp.Seed, ms[rp.Seed])
			}
		case "stream":
			h.streams(true)
		default:
			ci, ok := byName[rp.Codec]
			if ok {
				h.push(c05Item{ci: ci, kind: rp.Kind, in: rp.Input, label: "replay"})
				h.flush()
			}
		}
		if err := r.Finish(); err != nil {
			t.Fatal(err)
		}
		return
	}

	full := vmc.Pick(r, 96, 512)
	subst := []byte{0x00, 0x01, 0x7f, 0x80, 0xff}
	exts := [][]byte{{0x00}, {0xff}, {0x00, 0x00}, {0x00, 0xff}, {0xff, 0x00}, {0xff, 0xff}}
	unit := 0 // work units are dealt to shards round-robin
	mine := func() bool {
		unit++
		return (unit-1)%r.Shards == r.Shard
	}

	// dedicated hostile-count inputs (labelled allocation sites), before the grids
	for _, hc := range c05HostileCounts() {
		if mine() {
			h.push(c05Item{ci: byName[hc.codec], kind: "hostile-count", in: hc.in, label: hc.label})
			r.Add("hostile_count_inputs", 1)
		}
	}
	h.flush()

	// (a) round trips
	for ci := range h.codecs {
		ms := h.codecs[ci].msgs(thorough)
		if r.Shard == 0 {
			r.Add("corpus_messages", int64(len(ms)))
		}
		for idx, m := range ms {
			if !mine() {
				continue
			}
			h.roundTrip(ci, idx, m)
			if idx == 1 && len(ms) > 1 {
				r.Sample(map[string]any{"part": "roundtrip", "codec": h.codecs[ci].name, "message": c05Describe(m)})
			}
		}
		if r.Expired() {
			break
		}
	}

	// (b) mutations of seed encodings through their own decoder
	var seedEncs [][]byte
	var seedCodec []int
	for ci := range h.codecs {
		c := &h.codecs[ci]
		for _, m := range c.seeds(thorough) {
			var e []byte
			if pv := c05Try(func() { e = c.enc(m) }); pv != nil {
				continue // reported by part (a)
			}
			seedEncs = append(seedEncs, e)
			seedCodec = append(seedCodec, ci)
		}
	}
	if r.Shard == 0 {
		r.Add("seed_encodings", int64(len(seedEncs)))
	}
	for si, e := range seedEncs {
		if !mine() {
			continue
		}
		if si&63 == 0 && r.Expired() {
			break
		}
		ci := seedCodec[si]
		h.push(c05Item{ci: ci, kind: "valid", in: e})
		offs := c05Offsets(len(e), full)
		for _, k := range offs {
			h.push(c05Item{ci: ci, kind: "truncated", in: e[:k]})
		}
		for _, k := range offs {
			for _, v := range subst {
				if e[k] == v {
					continue
				}
				m := append([]byte(nil), e...)
				m[k] = v
				h.push(c05Item{ci: ci, kind: "substituted", in: m})
			}
		}
		for _, x := range exts {
			h.push(c05Item{ci: ci, kind: "extended", in: append(append([]byte(nil), e...), x...)})
		}
	}
	h.flush()

	// seed encodings through every other decoder (in the quick tier: the first seeds of every codec)
	perCodec := map[int]int{}
	for si, e := range seedEncs {
		own := seedCodec[si]
		perCodec[own]++
		if !thorough && perCodec[own] > 12 {
			continue
		}
		if !mine() {
			continue
		}
		for ci := range h.codecs {
			if ci != own {
				h.push(c05Item{ci: ci, kind: "foreign-message", in: e})
			}
		}
	}
	h.flush()

	// short byte strings through every decoder
	alpha8 := []byte{0x00, 0x01, 0x02, 0x03, 0x7f, 0x80, 0xfe, 0xff}
	for ci := range h.codecs {
		if !mine() || r.Expired() {
			continue
		}
		h.push(c05Item{ci: ci, kind: "short", in: []byte{}})
		for a := 0; a < 256; a++ {
			h.push(c05Item{ci: ci, kind: "short", in: []byte{byte(a)}})
			for b := 0; b < 256; b++ {
				h.push(c05Item{ci: ci, kind: "short", in: []byte{byte(a), byte(b)}})
			}
		}
		for _, a := range alpha8 {
			for _, b := range alpha8 {
				for _, c := range alpha8 {
					h.push(c05Item{ci: ci, kind: "short", in: []byte{a, b, c}})
					for _, d := range alpha8 {
						h.push(c05Item{ci: ci, kind: "short", in: []byte{a, b, c, d}})
					}
				}
			}
		}
	}
	h.flush()

	// oversize frame: outside the wire limit, must fail cleanly
	if r.Shard == 0 {
		var err error
		if pv := c05Try(func() { _, err = (&Frame{Payload: make([]byte, MaxPayloadSize+1)}).Encode() }); pv != nil || err == nil {
			r.Violate("C05/oversize-frame-not-refused", fmt.Sprintf("Frame.Encode with a %d-byte payload: panic=%v err=%v", MaxPayloadSize+1, pv, err), c05Replay{Part: "roundtrip", Codec: "Frame", Seed: -1})
		}
		h.streams(thorough)
	}

	r.Add("alloc_measurements", h.measure)
	if err := r.Finish(); err != nil {
		t.Fatal(err)
	}
}
