//go:build verif

package socks5

// C23 -- SOCKS5 request handling is robust and dials exactly what was asked.
//
// Bounded-exhaustive enumeration of client byte streams fed to the real
// Server.handleConn / Handler.Handle through a scripted in-memory net.Conn that
// returns the stream in harness-chosen read splits, with a recording Dialer and
// recording UDP / ICMP association handlers. Five grids (see c23Generate):
//   A  every byte string over a 7-symbol alphabet up to a length bound (garbage from byte 0)
//   B  a valid greeting (and valid credentials) followed by every string over a 6-symbol alphabet
//   C  the full grammar product ver x cmd x rsv x atyp/address x port x association handlers
//   D  every truncation prefix x every split into two reads (thorough: three reads) x
//      byte-at-a-time reads of a reduced grammar set under a dozen greetings
//   E  dialer outcomes x local address forms x client-closes / client-waits
// Oracle = an independent 60-line reference scanner of the client stream (c23Check):
//   * no panic;
//   * everything the server wrote parses as [method selection][auth status]?[reply]? with
//     VER 5, method in the offered set or FF, RSV 0, ATYP in {1,3,4}, REP an assigned code,
//     length exactly matching, nothing after the reply;
//   * a dial happens only for a complete, well-formed CONNECT request, at most once, to a
//     string that is "host:port" / "[host]:port" with host exactly the domain bytes or an
//     IP equal to the encoded IPv4/IPv6 address and port the big-endian decimal port;
//   * a success reply to CONNECT only after exactly that dial;
//   * complete request with unsupported command -> REP 07; unsupported address type -> REP 08
//     (07 also accepted when the command is unsupported too).

import (
	"context"
	"encoding/hex"
	"errors"
	"fmt"
	"io"
	"net"
	"os"
	"runtime"
	"strconv"
	"strings"
	"sync"
	"testing"
	"time"

	"github.com/postalsys/muti-metroo/internal/vmc"
)

// ---------------------------------------------------------------------------
// scripted client connection
// ---------------------------------------------------------------------------

type c23Conn struct {
	mu      sync.Mutex
	cond    *sync.Cond
	chunks  [][]byte
	eof     bool // at end of stream: true = client closed (EOF), false = client waits
	closed  bool
	rdl     time.Time
	timer   *time.Timer
	out     []byte
	local   net.Addr
	blocked chan struct{} // signalled when a Read parks at end of stream with no near deadline
}

func c23NewConn(in []byte, cuts []int, eof bool, local net.Addr) *c23Conn {
	c := &c23Conn{eof: eof, local: local, blocked: make(chan struct{}, 1)}
	c.cond = sync.NewCond(&c.mu)
	prev := 0
	for _, k := range cuts {
		if k > prev && k < len(in) {
			c.chunks = append(c.chunks, in[prev:k])
			prev = k
		}
	}
	if prev < len(in) {
		c.chunks = append(c.chunks, in[prev:])
	}
	return c
}

func (c *c23Conn) Read(b []byte) (int, error) {
	c.mu.Lock()
	defer c.mu.Unlock()
	for {
		if c.closed {
			return 0, net.ErrClosed
		}
		if !c.rdl.IsZero() && !time.Now().Before(c.rdl) {
			return 0, os.ErrDeadlineExceeded
		}
		if len(b) == 0 {
			return 0, nil
		}
		if len(c.chunks) > 0 {
			n := copy(b, c.chunks[0])
			if n == len(c.chunks[0]) {
				c.chunks = c.chunks[1:]
			} else {
				c.chunks[0] = c.chunks[0][n:]
			}
			return n, nil
		}
		if c.eof {
			return 0, io.EOF
		}
		// the client sends nothing more and waits. A reader with no deadline (or one far
		// away: idle timeout, the 5 min UDP control-connection poll) would wait for ever:
		// tell the driver, which then closes the connection. The 100 ms dial monitor is
		// woken by the handler itself (past deadline) and is not such a reader.
		if c.rdl.IsZero() || time.Until(c.rdl) > time.Second {
			select {
			case c.blocked <- struct{}{}:
			default:
			}
		}
		c.cond.Wait()
	}
}

func (c *c23Conn) Write(b []byte) (int, error) {
	c.mu.Lock()
	defer c.mu.Unlock()
	if c.closed {
		return 0, net.ErrClosed
	}
	c.out = append(c.out, b...)
	return len(b), nil
}

func (c *c23Conn) Close() error {
	c.mu.Lock()
	c.closed = true
	if c.timer != nil {
		c.timer.Stop()
	}
	c.cond.Broadcast()
	c.mu.Unlock()
	return nil
}

func (c *c23Conn) CloseWrite() error { return nil }

func (c *c23Conn) setRDL(t time.Time) {
	c.mu.Lock()
	c.rdl = t
	if c.timer != nil {
		c.timer.Stop()
		c.timer = nil
	}
	if !t.IsZero() && !c.closed {
		if d := time.Until(t); d > 0 {
			c.timer = time.AfterFunc(d, func() {
				c.mu.Lock()
				c.cond.Broadcast()
				c.mu.Unlock()
			})
		}
	}
	c.cond.Broadcast()
	c.mu.Unlock()
}

func (c *c23Conn) LocalAddr() net.Addr                { return c.local }
func (c *c23Conn) RemoteAddr() net.Addr               { return &net.TCPAddr{IP: net.IPv4(127, 0, 0, 1), Port: 40000} }
func (c *c23Conn) SetDeadline(t time.Time) error      { c.setRDL(t); return nil }
func (c *c23Conn) SetReadDeadline(t time.Time) error  { c.setRDL(t); return nil }
func (c *c23Conn) SetWriteDeadline(t time.Time) error { return nil }

func (c *c23Conn) output() []byte {
	c.mu.Lock()
	defer c.mu.Unlock()
	return append([]byte(nil), c.out...)
}

// ---------------------------------------------------------------------------
// recording dialer, target connection, association handlers
// ---------------------------------------------------------------------------

type c23Target struct{ local net.Addr }

func (t *c23Target) Read(b []byte) (int, error)         { return 0, io.EOF }
func (t *c23Target) Write(b []byte) (int, error)        { return len(b), nil }
func (t *c23Target) Close() error                       { return nil }
func (t *c23Target) CloseWrite() error                  { return nil }
func (t *c23Target) LocalAddr() net.Addr                { return t.local }
func (t *c23Target) RemoteAddr() net.Addr               { return &net.TCPAddr{IP: net.IPv4(10, 0, 0, 1), Port: 1} }
func (t *c23Target) SetDeadline(time.Time) error        { return nil }
func (t *c23Target) SetReadDeadline(time.Time) error    { return nil }
func (t *c23Target) SetWriteDeadline(time.Time) error   { return nil }

type c23TimeoutErr struct{}

func (c23TimeoutErr) Error() string   { return "i/o timeout" }
func (c23TimeoutErr) Timeout() bool   { return true }
func (c23TimeoutErr) Temporary() bool { return true }

const (
	c23DialOKv4 = iota
	c23DialOKv6
	c23DialOKnilIP
	c23DialOKmapped
	c23DialErrPlain
	c23DialErrOp
	c23DialErrDNS
	c23DialErrTimeout
	c23DialModes
)

type c23Dialer struct {
	mu    sync.Mutex
	mode  int
	calls []string
	nets  []string
}

func (d *c23Dialer) Dial(network, address string) (net.Conn, error) {
	return d.DialContext(context.Background(), network, address)
}

func (d *c23Dialer) DialContext(ctx context.Context, network, address string) (net.Conn, error) {
	d.mu.Lock()
	d.calls = append(d.calls, address)
	d.nets = append(d.nets, network)
	d.mu.Unlock()
	switch d.mode {
	case c23DialOKv4:
		return &c23Target{&net.TCPAddr{IP: net.IPv4(192, 0, 2, 7).To4(), Port: 50001}}, nil
	case c23DialOKv6:
		return &c23Target{&net.TCPAddr{IP: net.ParseIP("2001:db8::7"), Port: 50002}}, nil
	case c23DialOKnilIP:
		return &c23Target{&net.TCPAddr{IP: nil, Port: 0}}, nil
	case c23DialOKmapped:
		return &c23Target{&net.TCPAddr{IP: net.IPv4(192, 0, 2, 7), Port: 65535}}, nil // 16-byte v4-mapped form
	case c23DialErrPlain:
		return nil, errors.New("stream open failed")
	case c23DialErrOp:
		return nil, &net.OpError{Op: "dial", Net: "tcp", Err: errors.New("connection refused")}
	case c23DialErrDNS:
		return nil, fmt.Errorf("resolve: %w", &net.DNSError{Err: "no such host", Name: "x", IsNotFound: true})
	default:
		return nil, &net.OpError{Op: "dial", Net: "tcp", Err: c23TimeoutErr{}}
	}
}

type c23Assoc struct {
	mu      sync.Mutex
	enabled bool
	udp     int
	icmp    int
}

func (a *c23Assoc) CreateUDPAssociation(ctx context.Context, clientAddr *net.UDPAddr) (uint64, error) {
	a.mu.Lock()
	a.udp++
	a.mu.Unlock()
	return 7, nil
}
func (a *c23Assoc) SetSOCKS5UDPAssociation(uint64, *UDPAssociation) {}
func (a *c23Assoc) RelayUDPDatagram(uint64, net.Addr, uint16, byte, []byte, []byte) error {
	return nil
}
func (a *c23Assoc) CloseUDPAssociation(uint64) {}
func (a *c23Assoc) IsUDPEnabled() bool         { return a.enabled }
func (a *c23Assoc) CreateICMPSession(ctx context.Context, destIP net.IP) (uint64, error) {
	a.mu.Lock()
	a.icmp++
	a.mu.Unlock()
	return 9, nil
}
func (a *c23Assoc) SetSOCKS5ICMPAssociation(uint64, *ICMPAssociation)  {}
func (a *c23Assoc) RelayICMPEcho(uint64, uint16, uint16, []byte) error { return nil }
func (a *c23Assoc) CloseICMPSession(uint64)                            {}
func (a *c23Assoc) IsICMPEnabled() bool                                { return a.enabled }

// ---------------------------------------------------------------------------
// case, execution, observation
// ---------------------------------------------------------------------------

type c23Case struct {
	Grid  string `json:"grid"`
	In    string `json:"in_hex"`
	Cuts  []int  `json:"cuts"`  // read boundaries (absolute offsets); -1 as only element = one byte per read
	Auth  int    `json:"auth"`  // 0 no-auth, 1 user/pass "u"/"p" required, 2 user/pass then no-auth
	Dial  int    `json:"dial"`  // c23Dial*
	Assoc int    `json:"assoc"` // 0 no UDP/ICMP handler, 1 enabled, 2 present but disabled
	Local int    `json:"local"` // LocalAddr of the client connection: 0 TCP 127.0.0.1, 1 nil (WebSocket), 2 TCP 0.0.0.0
	Wait  bool   `json:"wait"`  // client keeps the connection open at the end of the stream

	in []byte
}

type c23Obs struct {
	out   []byte
	dials []string
	nets  []string
	panic string
	udp   int
	icmp  int
	hung  bool
}

func c23Run(c *c23Case) c23Obs {
	var auths []Authenticator
	up := NewUserPassAuthenticator(StaticCredentials{"u": "p"})
	switch c.Auth {
	case 0:
		auths = []Authenticator{&NoAuthAuthenticator{}}
	case 1:
		auths = []Authenticator{up}
	default:
		auths = []Authenticator{up, &NoAuthAuthenticator{}}
	}
	d := &c23Dialer{mode: c.Dial}
	srv := NewServer(ServerConfig{Address: "127.0.0.1:1080", IdleTimeout: 5 * time.Minute, Authenticators: auths, Dialer: d})
	as := &c23Assoc{enabled: c.Assoc == 1}
	if c.Assoc != 0 {
		srv.SetUDPHandler(as)
		srv.SetICMPHandler(as)
	}
	var local net.Addr
	switch c.Local {
	case 0:
		local = &net.TCPAddr{IP: net.IPv4(127, 0, 0, 1), Port: 1080}
	case 2:
		local = &net.TCPAddr{IP: net.IPv4zero, Port: 1080}
	}
	cuts := c.Cuts
	if len(cuts) == 1 && cuts[0] == -1 {
		cuts = make([]int, 0, len(c.in))
		for i := 1; i < len(c.in); i++ {
			cuts = append(cuts, i)
		}
	}
	conn := c23NewConn(c.in, cuts, !c.Wait, local)
	var o c23Obs
	done := make(chan struct{})
	// exactly what acceptLoop does before handing the connection over
	srv.tracker.add(conn)
	srv.wg.Add(1)
	go func() {
		defer close(done)
		defer func() {
			if p := recover(); p != nil {
				o.panic = fmt.Sprint(p)
			}
		}()
		srv.handleConn(conn)
	}()
	guard := time.NewTimer(60 * time.Second)
	defer guard.Stop()
	select {
	case <-done:
	case <-conn.blocked:
		conn.Close()
		select {
		case <-done:
		case <-guard.C:
			o.hung = true
		}
	case <-guard.C:
		o.hung = true
	}
	conn.Close()
	o.out = conn.output()
	d.mu.Lock()
	o.dials = append([]string(nil), d.calls...)
	o.nets = append([]string(nil), d.nets...)
	d.mu.Unlock()
	as.mu.Lock()
	o.udp, o.icmp = as.udp, as.icmp
	as.mu.Unlock()
	return o
}

// ---------------------------------------------------------------------------
// reference oracle
// ---------------------------------------------------------------------------

type c23V struct{ fp, what string }

type c23Verdict struct {
	viol      []c23V
	stage     string // how far the reference scanner got
	rep       int    // reply code seen, -1 none
	nontriv   string
	outcome   string
}

func c23ParseReply(b []byte) (rep int, why string) {
	if len(b) < 4 {
		return -1, "short"
	}
	if b[0] != 5 {
		return -1, "ver"
	}
	if b[2] != 0 {
		return -1, "rsv"
	}
	if b[1] > 8 {
		return -1, "rep-unassigned"
	}
	var total int
	switch b[3] {
	case 1:
		total = 10
	case 4:
		total = 22
	case 3:
		if len(b) < 5 {
			return -1, "short"
		}
		total = 7 + int(b[4])
	default:
		return -1, "atyp"
	}
	if len(b) < total {
		return -1, "short"
	}
	if len(b) > total {
		return -1, "trailing-bytes"
	}
	return int(b[1]), ""
}

// c23DialMatches: is addr a host:port / [host]:port spelling of exactly the requested destination?
func c23DialMatches(addr string, atyp byte, raw []byte, port uint16) bool {
	ps := ":" + strconv.Itoa(int(port))
	if !strings.HasSuffix(addr, ps) {
		return false
	}
	h := addr[:len(addr)-len(ps)]
	bracketed := false
	if len(h) >= 2 && h[0] == '[' && h[len(h)-1] == ']' {
		// only a bracket spelling if the inside is the whole host
		bracketed = true
	}
	if atyp == AddrTypeDomain {
		dom := string(raw)
		if bracketed && h[1:len(h)-1] == dom {
			return true
		}
		return h == dom && !strings.Contains(dom, ":")
	}
	if bracketed {
		h = h[1 : len(h)-1]
	} else if strings.Contains(h, ":") {
		return false
	}
	ip := net.ParseIP(h)
	return ip != nil && ip.Equal(net.IP(raw))
}

func c23Contains(b []byte, x byte) bool {
	for _, y := range b {
		if y == x {
			return true
		}
	}
	return false
}

func c23Check(c *c23Case, o *c23Obs) c23Verdict {
	v := c23Verdict{rep: -1, stage: "greeting"}
	add := func(fp, format string, a ...any) {
		v.viol = append(v.viol, c23V{fp, fmt.Sprintf(format, a...) + fmt.Sprintf(" [in=%s cuts=%v auth=%d dial=%d assoc=%d local=%d wait=%v out=%x dials=%q]", c.In, c.Cuts, c.Auth, c.Dial, c.Assoc, c.Local, c.Wait, o.out, o.dials)})
	}
	noDial := func() {
		if len(o.dials) != 0 {
			add("C23/dial-without-connect-request/"+v.stage, "dialer called (%q) although the stream holds no complete CONNECT request (stage %s)", o.dials, v.stage)
		}
		if o.udp+o.icmp != 0 && v.stage != "request-complete" {
			add("C23/association-without-request/"+v.stage, "UDP/ICMP association created at stage %s", v.stage)
		}
	}
	finish := func() c23Verdict {
		dialed := "nodial"
		if len(o.dials) > 0 {
			dialed = "dial"
		}
		v.outcome = fmt.Sprintf("%s|rep%d|%s|out%d", v.stage, v.rep, dialed, len(o.out))
		if o.panic != "" {
			add("C23/panic/"+v.stage, "handler panicked: %s", o.panic)
		}
		return v
	}
	in, out := c.in, o.out

	// --- greeting
	if len(in) < 2 || in[0] != 5 || len(in) < 2+int(in[1]) {
		if len(out) != 0 && !(len(out) == 2 && out[0] == 5 && out[1] == 0xFF) {
			add("C23/reply-malformed/before-greeting", "server wrote %x before a complete version-5 greeting", out)
		}
		noDial()
		return finish()
	}
	n := int(in[1])
	methods := in[2 : 2+n]
	rest := in[2+n:]
	v.stage = "method"
	if len(out) == 0 {
		noDial()
		return finish()
	}
	if len(out) < 2 || out[0] != 5 {
		add("C23/reply-malformed/method-selection", "method selection message %x is not VER=5 METHOD", out)
		return finish()
	}
	m := out[1]
	if m != 0xFF && !c23Contains(methods, m) {
		add("C23/reply-malformed/method-not-offered", "server selected method %02x which the client did not offer (%x)", m, methods)
		return finish()
	}
	out = out[2:]
	switch m {
	case 0xFF:
		if len(out) != 0 {
			add("C23/reply-malformed/after-no-acceptable", "bytes %x written after METHOD=FF", out)
		}
		noDial()
		return finish()
	case 0:
	case 2:
		v.stage = "auth"
		if len(out) == 0 {
			noDial()
			return finish()
		}
		if len(out) < 2 || out[0] != 1 {
			add("C23/reply-malformed/auth-status", "auth status message %x is not VER=1 STATUS", out)
			return finish()
		}
		st := out[1]
		out = out[2:]
		// locate the end of the sub-negotiation in the client stream
		sub := -1
		if len(rest) >= 2 {
			ul := int(rest[1])
			if len(rest) >= 2+ul+1 {
				pl := int(rest[2+ul])
				if len(rest) >= 2+ul+1+pl {
					sub = 2 + ul + 1 + pl
				}
			}
		}
		if st != 0 {
			if len(out) != 0 {
				add("C23/reply-malformed/after-auth-failure", "bytes %x written after auth failure", out)
			}
			noDial()
			return finish()
		}
		if sub < 0 {
			add("C23/reply-malformed/auth-success-on-truncated-credentials", "auth success written although the credentials message is incomplete")
			return finish()
		}
		rest = rest[sub:]
	default:
		return finish() // unknown sub-negotiation: nothing more can be decided
	}

	// --- request
	v.stage = "request-header"
	if len(rest) < 4 {
		if len(out) != 0 {
			add("C23/reply-malformed/before-request", "bytes %x written before a complete request header", out)
		}
		noDial()
		return finish()
	}
	ver, cmd, rsv, atyp := rest[0], rest[1], rest[2], rest[3]
	if len(out) != 0 {
		rep, why := c23ParseReply(out)
		if why != "" {
			add("C23/reply-malformed/"+why, "reply %x is not a well-formed SOCKS5 reply (%s)", out, why)
			return finish()
		}
		v.rep = rep
	}
	udpOn := c.Assoc == 1
	cmdSupported := cmd == CmdConnect || ((cmd == CmdUDPAssociate || cmd == CmdICMPEcho) && udpOn)
	noSuccess := func(why string) {
		if v.rep == 0 {
			add("C23/success-reply-without-valid-request/"+why, "success reply although %s", why)
		}
	}
	if ver != 5 {
		v.stage = "request-bad-version"
		noDial()
		noSuccess("request version is not 5")
		return finish()
	}
	if atyp != 1 && atyp != 3 && atyp != 4 {
		v.stage = "request-bad-atyp"
		noDial()
		noSuccess("address type unsupported")
		if rsv == 0 && !(v.rep == ReplyAddrNotSupported || (!cmdSupported && v.rep == ReplyCmdNotSupported)) {
			add(fmt.Sprintf("C23/unsupported-atyp-reply/rep%d", v.rep), "address type %02x (cmd %02x) answered with reply %d, want 8", atyp, cmd, v.rep)
		}
		v.nontriv = fmt.Sprintf("badatyp|cmd%02x|rep%d", cmd, v.rep)
		return finish()
	}
	var raw []byte
	alen := 0
	switch atyp {
	case 1:
		alen = 4
	case 4:
		alen = 16
	case 3:
		if len(rest) < 5 {
			v.stage = "request-truncated"
			noDial()
			noSuccess("request truncated")
			return finish()
		}
		alen = 1 + int(rest[4])
	}
	if len(rest) < 4+alen+2 {
		v.stage = "request-truncated"
		noDial()
		noSuccess("request truncated")
		if atyp == 3 && len(rest) >= 5 && rest[4] == 0 {
			v.nontriv = fmt.Sprintf("zerodomain-trunc|rep%d", v.rep)
		}
		return finish()
	}
	raw = rest[4 : 4+alen]
	if atyp == 3 {
		raw = raw[1:]
	}
	port := uint16(rest[4+alen])<<8 | uint16(rest[4+alen+1])
	v.stage = "request-complete"
	kind := fmt.Sprintf("cmd%02x|atyp%d|alen%d", cmd, atyp, len(raw))
	if cmd == CmdConnect {
		if len(o.dials) > 1 {
			add("C23/dial-count", "%d dials for one CONNECT", len(o.dials))
		}
		if len(o.dials) >= 1 {
			if !strings.HasPrefix(o.nets[0], "tcp") || !c23DialMatches(o.dials[0], atyp, raw, port) {
				add(fmt.Sprintf("C23/dial-mismatch/atyp%d", atyp), "CONNECT to atyp %d addr %x (%q) port %d dialled %s %q", atyp, raw, raw, port, o.nets[0], o.dials[0])
			}
		}
		if v.rep == 0 && len(o.dials) != 1 {
			add("C23/success-without-dial", "success reply to CONNECT with %d dials", len(o.dials))
		}
		if o.udp+o.icmp != 0 {
			add("C23/association-without-request/connect", "association created for CONNECT")
		}
		v.nontriv = fmt.Sprintf("%s|rep%d|dial%d", kind, v.rep, len(o.dials))
		return finish()
	}
	noDial()
	if !cmdSupported {
		noSuccess("command unsupported")
		// a zero-length domain name is itself malformed: any error reply is "corresponding"
		zeroDomain := atyp == 3 && len(raw) == 0
		if rsv == 0 && !zeroDomain && v.rep != ReplyCmdNotSupported {
			add(fmt.Sprintf("C23/unsupported-cmd-reply/cmd%02x-rep%d", cmd, v.rep), "complete request with unsupported command %02x answered with reply %d, want 7", cmd, v.rep)
		}
	}
	v.nontriv = fmt.Sprintf("%s|rep%d|assoc%d", kind, v.rep, c.Assoc)
	return finish()
}

// ---------------------------------------------------------------------------
// enumeration
// ---------------------------------------------------------------------------

type c23Runner struct {
	r       *vmc.Result
	batch   []c23Case
	workers int
	stop    bool
	selfchk map[string]int
}

func (q *c23Runner) emit(c c23Case) {
	if q.stop {
		return
	}
	c.In = hex.EncodeToString(c.in)
	q.batch = append(q.batch, c)
	if len(q.batch) >= 8192 {
		q.flush()
	}
}

func (q *c23Runner) flush() {
	if len(q.batch) == 0 {
		return
	}
	obs := make([]c23Obs, len(q.batch))
	var wg sync.WaitGroup
	var mu sync.Mutex
	next := 0
	for w := 0; w < q.workers; w++ {
		wg.Add(1)
		go func() {
			defer wg.Done()
			for {
				mu.Lock()
				i := next
				next++
				mu.Unlock()
				if i >= len(q.batch) {
					return
				}
				obs[i] = c23Run(&q.batch[i])
			}
		}()
	}
	wg.Wait()
	r := q.r
	for i := range q.batch {
		c, o := &q.batch[i], &obs[i]
		if o.hung {
			r.HarnessError("case did not terminate: %s", vmc.JSON(c))
			continue
		}
		// determinism self-check: the first 128 cases of every grid are executed twice
		if q.selfchk[c.Grid] < 128 {
			q.selfchk[c.Grid]++
			o2 := c23Run(c)
			if c23Mask(o2.out) != c23Mask(o.out) || fmt.Sprint(o2.dials) != fmt.Sprint(o.dials) || o2.panic != o.panic {
				r.HarnessError("nondeterministic observation for %s: %x/%v vs %x/%v", vmc.JSON(c), o.out, o.dials, o2.out, o2.dials)
			}
			r.Add("determinism_reruns", 1)
		}
		v := c23Check(c, o)
		r.Add("evaluations", 1)
		r.Add("grid_"+c.Grid, 1)
		if len(o.dials) > 0 {
			r.Add("cases_with_dial", 1)
		}
		if v.rep >= 0 {
			r.Add("cases_with_reply", 1)
		}
		if v.nontriv != "" {
			r.Nontrivial(v.nontriv)
		}
		r.Outcome(v.outcome)
		if v.nontriv != "" && (i%977 == 0) {
			r.Sample(map[string]any{"case": c, "out": hex.EncodeToString(o.out), "dials": o.dials, "stage": v.stage})
		}
		for _, x := range v.viol {
			r.Violate(x.fp, x.what, c)
		}
	}
	q.batch = q.batch[:0]
	if r.Expired() {
		q.stop = true
	}
}

// c23Mask hides the only run-dependent bytes of an observation: the kernel-chosen port of
// a UDP relay socket at the end of a success reply.
func c23Mask(out []byte) string {
	b := append([]byte(nil), out...)
	if len(b) >= 12 {
		b[len(b)-1], b[len(b)-2] = 0, 0
	}
	return string(b)
}

func c23Cat(parts ...[]byte) []byte {
	var b []byte
	for _, p := range parts {
		b = append(b, p...)
	}
	return b
}

type c23Addr struct {
	atyp byte
	enc  []byte // bytes following ATYP (address, without port); nil+atyp for unsupported types
}

func c23Addresses(long bool) []c23Addr {
	var l []c23Addr
	for _, s := range []string{"127.0.0.1", "0.0.0.0", "1.2.3.4", "255.255.255.255"} {
		l = append(l, c23Addr{1, net.ParseIP(s).To4()})
	}
	for _, s := range []string{"::1", "::", "::ffff:1.2.3.4", "2001:db8::1", "ffff:ffff:ffff:ffff:ffff:ffff:ffff:ffff", "102:304:506:708:90a:b0c:d0e:f10"} {
		l = append(l, c23Addr{4, net.ParseIP(s).To16()})
	}
	doms := []string{"a", "a.b", "a:b", "[::1]", "1.2.3.4", "::1", "A.b", " a", "a\x00b", "a]b", "[a", "a%b", "\xff\xfe", "a:80", ""}
	if long {
		doms = append(doms, strings.Repeat("x", 255), strings.Repeat("y.", 100))
	}
	for _, d := range doms {
		l = append(l, c23Addr{3, append([]byte{byte(len(d))}, d...)})
	}
	return l
}

var c23Cred = []byte{1, 1, 'u', 1, 'p'}

func c23Generate(q *c23Runner, thorough bool) {
	// ---- grid A: every string over sigA up to LA, from byte 0
	sigA := []byte{0x05, 0x01, 0x00, 0x02, 0x03, 0x04, 0xff}
	LA := 5
	if thorough {
		LA = 8
	}
	var rec func(grid string, prefix []byte, sig []byte, depth int, auth int)
	rec = func(grid string, prefix []byte, sig []byte, depth int, auth int) {
		if q.stop {
			return
		}
		q.emit(c23Case{Grid: grid, in: append([]byte(nil), prefix...), Auth: auth, Assoc: 1})
		if depth == 0 {
			return
		}
		for _, s := range sig {
			rec(grid, append(prefix, s), sig, depth-1, auth)
		}
	}
	for _, auth := range []int{0, 1} {
		rec("A", nil, sigA, LA, auth)
	}
	// ---- grid B: valid greeting (+ valid credentials) then every string over sigB
	sigB := []byte{0x05, 0x01, 0x00, 0x03, 0x04, 0x50}
	LB := 6
	if thorough {
		LB = 9
	}
	rec("B", []byte{5, 1, 0}, sigB, LB, 0)
	rec("B", c23Cat([]byte{5, 1, 2}, c23Cred), sigB, LB-1, 1)

	// ---- grid C: grammar product
	addrs := c23Addresses(true)
	badAtyps := []byte{0x00, 0x02, 0x05, 0xff}
	ports := [][]byte{{0, 80}, {0, 0}, {1, 0}, {0xff, 0xff}, {0x1f, 0x90}}
	greetC := []struct {
		g    []byte
		auth int
	}{{[]byte{5, 1, 0}, 0}, {c23Cat([]byte{5, 2, 0, 2}, c23Cred), 1}}
	for _, g := range greetC {
		for _, ver := range []byte{5, 4, 0} {
			for _, cmd := range []byte{1, 2, 3, 4, 0, 9, 0xff} {
				for _, rsv := range []byte{0, 1, 0xff} {
					for _, assoc := range []int{1, 0, 2} {
						for _, p := range ports {
							for _, a := range addrs {
								q.emit(c23Case{Grid: "C", in: c23Cat(g.g, []byte{ver, cmd, rsv, a.atyp}, a.enc, p), Auth: g.auth, Assoc: assoc})
							}
							for _, at := range badAtyps {
								q.emit(c23Case{Grid: "C", in: c23Cat(g.g, []byte{ver, cmd, rsv, at}, []byte{1, 2, 3, 4}, p), Auth: g.auth, Assoc: assoc})
								q.emit(c23Case{Grid: "C", in: c23Cat(g.g, []byte{ver, cmd, rsv, at}), Auth: g.auth, Assoc: assoc, Wait: true})
							}
						}
					}
				}
			}
		}
	}

	// ---- grid D: truncations x read splits
	many := make([]byte, 0, 257)
	many = append(many, 5, 255)
	for i := 0; i < 254; i++ {
		many = append(many, 0x80)
	}
	many = append(many, 0)
	greetD := []struct {
		g    []byte
		auth int
	}{
		{[]byte{5, 1, 0}, 0},
		{[]byte{5, 2, 0, 2}, 0},
		{[]byte{5, 2, 2, 0}, 0},
		{[]byte{5, 3, 0x80, 0, 1}, 0},
		{[]byte{5, 1, 2}, 0},
		{[]byte{5, 0}, 0},
		{[]byte{4, 1, 0}, 0},
		{c23Cat([]byte{5, 1, 2}, c23Cred), 1},
		{c23Cat([]byte{5, 2, 0, 2}, c23Cred), 1},
		{c23Cat([]byte{5, 1, 2}, []byte{1, 1, 'u', 1, 'x'}), 1},
		{c23Cat([]byte{5, 1, 2}, []byte{2, 1, 'u', 1, 'p'}), 1},
		{c23Cat([]byte{5, 1, 2}, []byte{1, 1, 'u', 0}), 1},
		{c23Cat([]byte{5, 1, 2}, c23Cred), 2},
		{[]byte{5, 1, 0}, 2},
		{many, 0},
	}
	for gi, g := range greetD {
		for _, cmd := range []byte{1, 3, 4, 2} {
			for _, a := range addrs {
				long := len(a.enc) > 40 || len(g.g) > 40
				if long && gi != 0 && gi != 7 && !(gi == len(greetD)-1 && len(a.enc) <= 5) {
					continue
				}
				full := c23Cat(g.g, []byte{5, cmd, 0, a.atyp}, a.enc, []byte{0, 80})
				// also two trailing bytes after the request (early client data)
				streams := [][]byte{full}
				if len(a.enc) <= 5 && gi < 2 {
					streams = append(streams, c23Cat(full, []byte{0x16, 0x03}))
				}
				for _, s := range streams {
					for plen := 0; plen <= len(s); plen++ {
						pre := s[:plen]
						waits := []bool{false}
						if plen == len(s) || plen%5 == 0 {
							waits = []bool{false, true}
						}
						for _, w := range waits {
							q.emit(c23Case{Grid: "D", in: pre, Auth: g.auth, Assoc: 1, Wait: w})
							if plen >= 2 {
								q.emit(c23Case{Grid: "D", in: pre, Cuts: []int{-1}, Auth: g.auth, Assoc: 1, Wait: w})
							}
							for k := 1; k < plen; k++ {
								if long && !thorough && k > 14 && k < plen-4 {
									continue
								}
								q.emit(c23Case{Grid: "D", in: pre, Cuts: []int{k}, Auth: g.auth, Assoc: 1, Wait: w})
								if thorough && !long && !w {
									for k2 := k + 1; k2 < plen; k2++ {
										q.emit(c23Case{Grid: "D", in: pre, Cuts: []int{k, k2}, Auth: g.auth, Assoc: 1})
									}
								}
							}
						}
						if q.stop {
							return
						}
					}
				}
			}
		}
	}

	// ---- grid E: dialer outcomes x local address x client behaviour
	for dm := 0; dm < c23DialModes; dm++ {
		for local := 0; local < 3; local++ {
			for _, wait := range []bool{true, false} {
				if !wait && dm >= c23DialErrPlain {
					continue // a client that closes while the dial fails races reply against cancellation: not enumerated
				}
				for _, assoc := range []int{1, 0, 2} {
					for _, cmd := range []byte{1, 3, 4} {
						for _, a := range addrs {
							q.emit(c23Case{Grid: "E", in: c23Cat([]byte{5, 1, 0, 5, cmd, 0, a.atyp}, a.enc, []byte{0x01, 0xbb}), Dial: dm, Local: local, Wait: wait, Assoc: assoc})
						}
					}
				}
			}
		}
	}
}

func TestVerif_C23(t *testing.T) {
	r := vmc.New("C23", "exploration")
	r.Rule = "client byte streams fed to the real Server.handleConn over a scripted net.Conn: (A) all strings over {05,01,00,02,03,04,ff} up to the length bound, (B) valid greeting/credentials + all strings over {05,01,00,03,04,50}, (C) product ver x cmd x rsv x atyp/address x port x UDP/ICMP handler presence, (D) every truncation x every read split of a reduced grammar set under 15 greetings, (E) dialer outcomes x local address forms x client waits/closes; a case is non-trivial when the reference scanner finds a complete request header (request reached dispatch or an address-type decision); distinct = (cmd, atyp, address length, reply code, dial count / handler presence)"
	r.Assume("the Dialer returns connections whose LocalAddr is a *net.TCPAddr (true for the agent's meshConn and net.Dialer); a panic in a goroutine spawned by the handler (dial monitor, relay copiers, UDP ReadLoop) would abort the run as a machinery failure instead of a VIOLATION")
	r.Assume("bytes relayed after the reply are not compared (the dial monitor may consume one early client byte; outside the statement)")
	r.Assume("IPv4-mapped IPv6 destinations are accepted as dialled when the dialled IP is net.IP.Equal to the encoded address")
	thorough := r.Thorough()
	q := &c23Runner{r: r, workers: runtime.GOMAXPROCS(0), selfchk: map[string]int{}}
	if q.workers > 16 {
		q.workers = 16
	}
	base := runtime.NumGoroutine()
	var rc c23Case
	if r.ReplayInto(&rc) {
		b, err := hex.DecodeString(rc.In)
		if err != nil {
			t.Fatal(err)
		}
		rc.in = b
		q.emit(rc)
		q.flush()
	} else {
		c23Generate(q, thorough)
		q.flush()
		r.Info["alphabet_length_bound_A"] = vmc.Pick(r, 5, 8)
		r.Info["alphabet_length_bound_B"] = vmc.Pick(r, 6, 9)
		r.Info["read_splits"] = vmc.Pick(r, "whole, byte-at-a-time, every 2-way split", "whole, byte-at-a-time, every 2-way and 3-way split")
	}
	// stray goroutines (UDP read loops, monitors) must drain; wait on the count, not on time alone
	for i := 0; i < 200 && runtime.NumGoroutine() > base+2; i++ {
		time.Sleep(10 * time.Millisecond)
	}
	if left := runtime.NumGoroutine() - base; left > 2 {
		r.HarnessError("%d goroutines of the code under test did not terminate", left)
	}
	if err := r.Finish(); err != nil {
		t.Fatal(err)
	}
}
