module rewrite_imports

go 1.24
