// Command maprange is a type-aware source rewriter: every `for ... range m`
// over a map in the given file is rewritten to iterate over vmc.MapKeys(m)
// (sorted, or permuted by the explorer through vmc.MapOrderHook), so that
// map iteration order -- a source of nondeterminism the Go runtime randomises
// -- is owned by the harness. Optionally it also redirects imports (same
// semantics as tools/rewrite "imports").
//
//	maprange -config cfg.json -in /repo/internal/flood/flood.go -out out.go
//
// The package containing -in is type-checked with go/packages (export data
// from the build cache; offline). cfg: {"imports": {...}, "vmc_import": "..."}.
package main

import (
	"encoding/json"
	"flag"
	"fmt"
	"go/ast"
	"go/format"
	"go/token"
	"go/types"
	"os"
	"path"
	"path/filepath"
	"strconv"
	"strings"

	"golang.org/x/tools/go/ast/astutil"
	"golang.org/x/tools/go/packages"
)

type Config struct {
	Imports   map[string]string `json:"imports"`
	VmcImport string            `json:"vmc_import"`
	Tags      string            `json:"tags"`
}

func fatal(a ...any) {
	fmt.Fprintln(os.Stderr, append([]any{"maprange:"}, a...)...)
	os.Exit(1)
}

func main() {
	cfgPath := flag.String("config", "", "")
	in := flag.String("in", "", "")
	out := flag.String("out", "", "")
	flag.Parse()
	var cfg Config
	if b, err := os.ReadFile(*cfgPath); err == nil {
		json.Unmarshal(b, &cfg)
	}
	if cfg.VmcImport == "" {
		cfg.VmcImport = "github.com/postalsys/muti-metroo/internal/vmc"
	}
	repo := os.Getenv("VERIF_REPO")
	if repo == "" {
		repo = "/repo"
	}
	ins := strings.Split(*in, ",")
	outs := strings.Split(*out, ",")
	rels := strings.Split(os.Getenv("VERIF_RW_REL"), ",")
	if len(ins) != len(outs) || len(ins) != len(rels) {
		fatal("-in, -out and VERIF_RW_REL must have the same number of entries")
	}
	overlay := map[string][]byte{}
	targets := make([]string, len(ins))
	dirSet := map[string]bool{}
	var dirs []string
	for i := range ins {
		targets[i] = filepath.Join(repo, rels[i])
		if ins[i] != targets[i] {
			b, err := os.ReadFile(ins[i])
			if err != nil {
				fatal(err)
			}
			overlay[targets[i]] = b
		}
		d := filepath.Dir(targets[i])
		if !dirSet[d] {
			dirSet[d] = true
			dirs = append(dirs, d)
		}
	}
	pcfg := &packages.Config{
		Mode:    packages.NeedName | packages.NeedFiles | packages.NeedCompiledGoFiles | packages.NeedSyntax | packages.NeedTypes | packages.NeedTypesInfo | packages.NeedImports,
		Dir:     repo,
		Overlay: overlay,
		Fset:    token.NewFileSet(),
	}
	pkgs, err := packages.Load(pcfg, dirs...)
	if err != nil {
		fatal(err)
	}
	for i := range targets {
		done := false
		for _, pkg := range pkgs {
			if len(pkg.Errors) > 0 {
				fatal("type errors:", pkg.Errors)
			}
			for j, f := range pkg.CompiledGoFiles {
				if filepath.Clean(f) == filepath.Clean(targets[i]) {
					rewriteFile(pkg, pkg.Syntax[j], cfg, outs[i])
					done = true
				}
			}
		}
		if !done {
			fatal("file not in any loaded package:", targets[i])
		}
	}
}

func rewriteFile(pkg *packages.Package, file *ast.File, cfg Config, outPath string) {
	file.Comments = nil
	n := 0
	cnt := 0
	astutil.Apply(file, nil, func(c *astutil.Cursor) bool {
		rs, ok := c.Node().(*ast.RangeStmt)
		if !ok {
			return true
		}
		tv, ok := pkg.TypesInfo.Types[rs.X]
		if !ok {
			return true
		}
		if _, isMap := tv.Type.Underlying().(*types.Map); !isMap {
			return true
		}
		n++
		cnt++
		m := ast.NewIdent(fmt.Sprintf("_vmm%d", cnt))
		k := ast.NewIdent(fmt.Sprintf("_vmk%d", cnt))
		okId := ast.NewIdent(fmt.Sprintf("_vmo%d", cnt))
		var pre []ast.Stmt
		// key binding
		keyIsBlank := rs.Key == nil || isBlank(rs.Key)
		valIsBlank := rs.Value == nil || isBlank(rs.Value)
		tok := rs.Tok
		if tok == token.ILLEGAL {
			tok = token.DEFINE
		}
		// v, ok := m[k]; if !ok { continue }   (entries deleted during iteration are skipped, as Go does)
		var vlhs ast.Expr = ast.NewIdent("_")
		vtok := token.ASSIGN
		if !valIsBlank {
			vlhs = rs.Value
			if tok == token.DEFINE {
				vtok = token.DEFINE
			}
		}
		if vtok == token.ASSIGN {
			// `_, ok = m[k]` needs ok declared: use a declaration for ok
			pre = append(pre, &ast.DeclStmt{Decl: &ast.GenDecl{Tok: token.VAR, Specs: []ast.Spec{&ast.ValueSpec{Names: []*ast.Ident{okId}, Type: ast.NewIdent("bool")}}}})
			pre = append(pre, &ast.AssignStmt{Lhs: []ast.Expr{vlhs, okId}, Tok: token.ASSIGN, Rhs: []ast.Expr{&ast.IndexExpr{X: m, Index: k}}})
		} else {
			pre = append(pre, &ast.AssignStmt{Lhs: []ast.Expr{vlhs, okId}, Tok: token.DEFINE, Rhs: []ast.Expr{&ast.IndexExpr{X: m, Index: k}}})
		}
		pre = append(pre, &ast.IfStmt{Cond: &ast.UnaryExpr{Op: token.NOT, X: okId}, Body: &ast.BlockStmt{List: []ast.Stmt{&ast.BranchStmt{Tok: token.CONTINUE}}}})
		if !keyIsBlank {
			pre = append([]ast.Stmt{&ast.AssignStmt{Lhs: []ast.Expr{rs.Key}, Tok: tok, Rhs: []ast.Expr{k}}}, pre...)
			if tok == token.DEFINE {
				// the key variable may be unused in the body only if it was blank; it is not
			}
		}
		body := &ast.BlockStmt{List: append(pre, rs.Body.List...)}
		loop := &ast.RangeStmt{
			Key: ast.NewIdent("_"), Value: k, Tok: token.DEFINE,
			X:    &ast.CallExpr{Fun: &ast.SelectorExpr{X: ast.NewIdent("vvmc"), Sel: ast.NewIdent("MapKeys")}, Args: []ast.Expr{m}},
			Body: body,
		}
		blk := &ast.BlockStmt{List: []ast.Stmt{
			&ast.AssignStmt{Lhs: []ast.Expr{m}, Tok: token.DEFINE, Rhs: []ast.Expr{rs.X}},
			loop,
		}}
		// a labeled range statement keeps its label on the new loop
		if ls, ok := c.Parent().(*ast.LabeledStmt); ok {
			_ = ls
			// label: { m := X; for ... } would change `continue label` semantics; put the label on the inner loop
			c.Replace(blk) // handled below by relabeling
			return true
		}
		c.Replace(blk)
		return true
	})
	// relabel: `L: { m := X; for ... }` -> `{ m := X; L: for ... }`
	astutil.Apply(file, nil, func(c *astutil.Cursor) bool {
		ls, ok := c.Node().(*ast.LabeledStmt)
		if !ok {
			return true
		}
		blk, ok := ls.Stmt.(*ast.BlockStmt)
		if !ok || len(blk.List) != 2 {
			return true
		}
		as, ok := blk.List[0].(*ast.AssignStmt)
		if !ok || len(as.Lhs) != 1 {
			return true
		}
		id, ok := as.Lhs[0].(*ast.Ident)
		if !ok || !strings.HasPrefix(id.Name, "_vmm") {
			return true
		}
		loop := blk.List[1]
		c.Replace(&ast.BlockStmt{List: []ast.Stmt{as, &ast.LabeledStmt{Label: ls.Label, Stmt: loop}}})
		return true
	})
	for _, im := range file.Imports {
		p, _ := strconv.Unquote(im.Path.Value)
		if np, ok := cfg.Imports[p]; ok {
			local := path.Base(p)
			if im.Name != nil {
				local = im.Name.Name
			}
			im.Name = ast.NewIdent(local)
			im.Path.Value = strconv.Quote(np)
		}
	}
	if n > 0 {
		spec := &ast.ImportSpec{Name: ast.NewIdent("vvmc"), Path: &ast.BasicLit{Kind: token.STRING, Value: strconv.Quote(cfg.VmcImport)}}
		added := false
		for _, d := range file.Decls {
			if gd, ok := d.(*ast.GenDecl); ok && gd.Tok == token.IMPORT {
				gd.Specs = append(gd.Specs, spec)
				if !gd.Lparen.IsValid() {
					gd.Lparen = gd.Pos()
					gd.Rparen = gd.End()
				}
				added = true
				break
			}
		}
		if !added {
			file.Decls = append([]ast.Decl{&ast.GenDecl{Tok: token.IMPORT, Specs: []ast.Spec{spec}}}, file.Decls...)
		}
	}
	var sb strings.Builder
	if err := format.Node(&sb, pkg.Fset, file); err != nil {
		fatal(err)
	}
	if err := os.WriteFile(outPath, []byte(sb.String()), 0o644); err != nil {
		fatal(err)
	}
}

func isBlank(e ast.Expr) bool {
	id, ok := e.(*ast.Ident)
	return ok && id.Name == "_"
}
