module verif/rewrite

go 1.24.0

require golang.org/x/tools v0.29.0
