// Command rewrite is the source rewriter of engine E3: a purely syntactic
// go/ast pass that routes synchronisation, channel, clock and goroutine
// operations of one source file through the controlled-scheduler shims.
// It is re-run on the current working tree at every check.
package main

import (
	"encoding/json"
	"flag"
	"fmt"
	"go/ast"
	"go/format"
	"go/parser"
	"go/token"
	"os"
	"path"
	"strconv"
	"strings"

	"golang.org/x/tools/go/ast/astutil"
)

type Config struct {
	// Imports maps an import path to its replacement; the local name is preserved.
	Imports map[string]string `json:"imports"`
	// Chans: rewrite channel operations, select, close and go statements.
	Chans bool `json:"chans"`
	// StepFuncs: insert a scheduling point before every statement of these
	// functions ("Recv.Method", "Func", or "*" for all).
	StepFuncs []string `json:"step_funcs"`
	// SchedImport is the import path of the sched package.
	SchedImport string `json:"sched_import"`
	// NoChanFuncs: functions whose channel operations are left untouched.
	NoChanFuncs []string `json:"no_chan_funcs"`
	// Idents: qualified identifier substitution, e.g. {"net.Dialer": "vnet.Dialer"} with ExtraImports.
	Idents       map[string]string `json:"idents"`
	ExtraImports map[string]string `json:"extra_imports"` // local name -> path
}

const schedName = "vsched"

var tmpCounter int

func tmp(prefix string) *ast.Ident {
	tmpCounter++
	return ast.NewIdent(fmt.Sprintf("_vr%s%d", prefix, tmpCounter))
}

func sel(name string) ast.Expr {
	return &ast.SelectorExpr{X: ast.NewIdent(schedName), Sel: ast.NewIdent(name)}
}

func call(fn string, args ...ast.Expr) *ast.CallExpr {
	return &ast.CallExpr{Fun: sel(fn), Args: args}
}

func funcName(fd *ast.FuncDecl) string {
	if fd.Recv != nil && len(fd.Recv.List) > 0 {
		t := fd.Recv.List[0].Type
		if s, ok := t.(*ast.StarExpr); ok {
			t = s.X
		}
		if ix, ok := t.(*ast.IndexExpr); ok {
			t = ix.X
		}
		if id, ok := t.(*ast.Ident); ok {
			return id.Name + "." + fd.Name.Name
		}
	}
	return fd.Name.Name
}

func inList(l []string, s string) bool {
	for _, x := range l {
		if x == s || x == "*" {
			return true
		}
	}
	return false
}

func main() {
	cfgPath := flag.String("config", "", "config json")
	in := flag.String("in", "", "input go file")
	out := flag.String("out", "", "output go file")
	flag.Parse()
	var cfg Config
	b, err := os.ReadFile(*cfgPath)
	if err != nil {
		fatal(err)
	}
	if err := json.Unmarshal(b, &cfg); err != nil {
		fatal(err)
	}
	if cfg.SchedImport == "" {
		cfg.SchedImport = "github.com/postalsys/muti-metroo/internal/vmc/sched"
	}
	fset := token.NewFileSet()
	f, err := parser.ParseFile(fset, *in, nil, parser.ParseComments)
	if err != nil {
		fatal(err)
	}
	// comments are dropped except build constraints/package doc: positions of
	// rewritten nodes would otherwise scatter them.
	f.Comments = nil
	needSched := false

	// 1. imports
	for _, im := range f.Imports {
		p, _ := strconv.Unquote(im.Path.Value)
		if np, ok := cfg.Imports[p]; ok {
			local := path.Base(p)
			if im.Name != nil {
				local = im.Name.Name
			}
			im.Name = ast.NewIdent(local)
			im.Path.Value = strconv.Quote(np)
		}
	}

	// 2. qualified identifier substitution
	if len(cfg.Idents) > 0 {
		astutil.Apply(f, func(c *astutil.Cursor) bool {
			if se, ok := c.Node().(*ast.SelectorExpr); ok {
				if x, ok := se.X.(*ast.Ident); ok {
					if rep, ok := cfg.Idents[x.Name+"."+se.Sel.Name]; ok {
						parts := strings.SplitN(rep, ".", 2)
						c.Replace(&ast.SelectorExpr{X: ast.NewIdent(parts[0]), Sel: ast.NewIdent(parts[1])})
					}
				}
			}
			return true
		}, nil)
	}

	// 3. per function: channels / go / select / steps
	for _, d := range f.Decls {
		fd, ok := d.(*ast.FuncDecl)
		if !ok || fd.Body == nil {
			continue
		}
		name := funcName(fd)
		if cfg.Chans && !inList(cfg.NoChanFuncs, name) {
			if rewriteChans(fd.Body) {
				needSched = true
			}
		}
		if inList(cfg.StepFuncs, name) {
			insertSteps(fd.Body)
			needSched = true
		}
	}

	if needSched {
		addImport(f, schedName, cfg.SchedImport)
	}
	for local, p := range cfg.ExtraImports {
		addImport(f, local, p)
	}
	var sb strings.Builder
	if err := format.Node(&sb, fset, f); err != nil {
		fatal(err)
	}
	src := sb.String()
	if err := os.WriteFile(*out, []byte(src), 0o644); err != nil {
		fatal(err)
	}
}

func fatal(err error) {
	fmt.Fprintln(os.Stderr, "rewrite:", err)
	os.Exit(1)
}

func addImport(f *ast.File, local, p string) {
	spec := &ast.ImportSpec{Name: ast.NewIdent(local), Path: &ast.BasicLit{Kind: token.STRING, Value: strconv.Quote(p)}}
	for _, d := range f.Decls {
		if gd, ok := d.(*ast.GenDecl); ok && gd.Tok == token.IMPORT {
			gd.Specs = append(gd.Specs, spec)
			if !gd.Lparen.IsValid() {
				gd.Lparen = gd.Pos()
				gd.Rparen = gd.End()
			}
			f.Imports = append(f.Imports, spec)
			return
		}
	}
	gd := &ast.GenDecl{Tok: token.IMPORT, Specs: []ast.Spec{spec}}
	f.Decls = append([]ast.Decl{gd}, f.Decls...)
	f.Imports = append(f.Imports, spec)
}

// isRecv reports whether e is `<-x`.
func isRecv(e ast.Expr) (*ast.UnaryExpr, bool) {
	for {
		if p, ok := e.(*ast.ParenExpr); ok {
			e = p.X
			continue
		}
		break
	}
	u, ok := e.(*ast.UnaryExpr)
	return u, ok && u.Op == token.ARROW
}

// rewriteChans rewrites select, send, receive, close and go inside body.
func rewriteChans(body *ast.BlockStmt) bool {
	changed := false
	astutil.Apply(body, func(c *astutil.Cursor) bool {
		switch n := c.Node().(type) {
		case *ast.SelectStmt:
			// protect the communication statements: they stay real channel
			// operations and are consumed by rewriteSelect in the post-order pass
			for _, cl := range n.Body.List {
				cc := cl.(*ast.CommClause)
				if cc.Comm == nil {
					continue
				}
				commStmt[cc.Comm] = true
				switch st := cc.Comm.(type) {
				case *ast.ExprStmt:
					if u, ok := isRecv(st.X); ok {
						commRecv[u] = true
					}
				case *ast.AssignStmt:
					if u, ok := isRecv(st.Rhs[0]); ok {
						commRecv[u] = true
					}
				}
			}
		case *ast.RangeStmt:
			// `for x := range ch` cannot be detected syntactically; the inventory of
			// the target files shows none. Nothing to do.
		}
		return true
	}, func(c *astutil.Cursor) bool {
		switch n := c.Node().(type) {
		case *ast.SelectStmt:
			c.Replace(rewriteSelect(n))
			changed = true
		case *ast.SendStmt:
			if inComm(c) {
				return true
			}
			ch := tmp("c")
			blk := &ast.BlockStmt{List: []ast.Stmt{
				&ast.AssignStmt{Lhs: []ast.Expr{ch}, Tok: token.DEFINE, Rhs: []ast.Expr{n.Chan}},
				&ast.ExprStmt{X: call("Send", ch, &ast.FuncLit{
					Type: &ast.FuncType{Params: &ast.FieldList{}},
					Body: &ast.BlockStmt{List: []ast.Stmt{&ast.SendStmt{Chan: ch, Value: n.Value}}},
				})},
			}}
			c.Replace(blk)
			changed = true
		case *ast.AssignStmt:
			if inComm(c) {
				return true
			}
			if len(n.Lhs) == 2 && len(n.Rhs) == 1 {
				if u, ok := isRecv(n.Rhs[0]); ok {
					n.Rhs[0] = call("Recv2", u.X)
					changed = true
				}
			}
		case *ast.UnaryExpr:
			if n.Op == token.ARROW {
				// a receive used as expression or statement (not a select comm: those
				// were consumed by rewriteSelect before we get here, see inComm)
				if commRecv[n] {
					return true
				}
				c.Replace(call("Recv", n.X))
				changed = true
			}
		case *ast.CallExpr:
			if id, ok := n.Fun.(*ast.Ident); ok && id.Name == "close" && len(n.Args) == 1 {
				c.Replace(call("Close", n.Args[0]))
				changed = true
			}
		case *ast.GoStmt:
			c.Replace(rewriteGo(n))
			changed = true
		}
		return true
	})
	return changed
}

// commRecv marks receive expressions that belong to a (rewritten) select clause
// and must stay real channel operations.
var commRecv = map[*ast.UnaryExpr]bool{}
var commStmt = map[ast.Stmt]bool{}

func inComm(c *astutil.Cursor) bool {
	if s, ok := c.Node().(ast.Stmt); ok {
		return commStmt[s]
	}
	return false
}

// rewriteSelect turns
//
//	select { case v := <-a: A; case b <- x: B; default: D }
//
// into
//
//	{ _c1 := a; _c2 := b
//	  switch vsched.Select(true, vsched.R(_c1), vsched.W(_c2)) {
//	  case 0: v := <-_c1; A
//	  case 1: _c2 <- x; B
//	  case -1: D
//	  default: select {...original with hoisted channels...}   // -2: no scheduler active
//	  } }
//
// Post-order traversal guarantees the clause bodies were already rewritten;
// the comm statements themselves were protected through commStmt/commRecv,
// which the pre-pass below fills.
func rewriteSelect(s *ast.SelectStmt) ast.Stmt {
	var pre []ast.Stmt
	var cases []ast.Expr
	hasDefault := false
	sw := &ast.SwitchStmt{Body: &ast.BlockStmt{}}
	idx := 0
	for _, cl := range s.Body.List {
		cc := cl.(*ast.CommClause)
		if cc.Comm == nil {
			hasDefault = true
			sw.Body.List = append(sw.Body.List, &ast.CaseClause{
				List: []ast.Expr{&ast.UnaryExpr{Op: token.SUB, X: &ast.BasicLit{Kind: token.INT, Value: "1"}}},
				Body: cc.Body,
			})
			continue
		}
		ch := tmp("c")
		var chanExpr ast.Expr
		var first ast.Stmt
		switch st := cc.Comm.(type) {
		case *ast.SendStmt:
			chanExpr = st.Chan
			first = &ast.SendStmt{Chan: ch, Value: st.Value}
			cases = append(cases, call("W", ch))
		case *ast.ExprStmt:
			u, _ := isRecv(st.X)
			chanExpr = u.X
			first = &ast.ExprStmt{X: &ast.UnaryExpr{Op: token.ARROW, X: ch}}
			cases = append(cases, call("R", ch))
		case *ast.AssignStmt:
			u, _ := isRecv(st.Rhs[0])
			chanExpr = u.X
			first = &ast.AssignStmt{Lhs: st.Lhs, Tok: st.Tok, Rhs: []ast.Expr{&ast.UnaryExpr{Op: token.ARROW, X: ch}}}
			cases = append(cases, call("R", ch))
		default:
			fatal(fmt.Errorf("unsupported select comm clause %T", cc.Comm))
		}
		pre = append(pre, &ast.AssignStmt{Lhs: []ast.Expr{ch}, Tok: token.DEFINE, Rhs: []ast.Expr{chanExpr}})
		body := append([]ast.Stmt{first}, cc.Body...)
		// variables declared by `v := <-ch` may be unused in the body only if they were unused before: keep as is
		sw.Body.List = append(sw.Body.List, &ast.CaseClause{
			List: []ast.Expr{&ast.BasicLit{Kind: token.INT, Value: strconv.Itoa(idx)}},
			Body: body,
		})
		idx++
	}
	args := []ast.Expr{ast.NewIdent(strconv.FormatBool(hasDefault))}
	args = append(args, cases...)
	pick := tmp("i")
	sw.Tag = pick
	assign := &ast.AssignStmt{Lhs: []ast.Expr{pick}, Tok: token.DEFINE, Rhs: []ast.Expr{call("Select", args...)}}
	// -2 = no controlled execution is active (harness set-up, free-running parts): run the ORIGINAL
	// select (its comm statements were protected from rewriting, its bodies are the rewritten ones).
	// A readiness-polling fallback would race with uncontrolled senders.
	sw.Body.List = append(sw.Body.List, &ast.CaseClause{
		List: []ast.Expr{&ast.UnaryExpr{Op: token.SUB, X: &ast.BasicLit{Kind: token.INT, Value: "2"}}},
		Body: []ast.Stmt{s},
	})
	sw.Body.List = append(sw.Body.List, &ast.CaseClause{Body: []ast.Stmt{
		&ast.ExprStmt{X: &ast.CallExpr{Fun: ast.NewIdent("panic"), Args: []ast.Expr{&ast.BasicLit{Kind: token.STRING, Value: `"vsched: bad select index"`}}}}}})
	list := append(pre, assign, sw)
	return &ast.BlockStmt{List: list}
}

func rewriteGo(g *ast.GoStmt) ast.Stmt {
	var pre []ast.Stmt
	callx := g.Call
	var args []ast.Expr
	for _, a := range callx.Args {
		t := tmp("a")
		pre = append(pre, &ast.AssignStmt{Lhs: []ast.Expr{t}, Tok: token.DEFINE, Rhs: []ast.Expr{a}})
		args = append(args, t)
	}
	fun := callx.Fun
	if fl, ok := fun.(*ast.FuncLit); ok && len(callx.Args) > 0 {
		t := tmp("f")
		pre = append(pre, &ast.AssignStmt{Lhs: []ast.Expr{t}, Tok: token.DEFINE, Rhs: []ast.Expr{fl}})
		fun = t
	}
	var goArg ast.Expr
	if fl, ok := fun.(*ast.FuncLit); ok && len(args) == 0 {
		goArg = fl
	} else {
		goArg = &ast.FuncLit{
			Type: &ast.FuncType{Params: &ast.FieldList{}},
			Body: &ast.BlockStmt{List: []ast.Stmt{&ast.ExprStmt{X: &ast.CallExpr{Fun: fun, Args: args, Ellipsis: callx.Ellipsis}}}},
		}
	}
	pre = append(pre, &ast.ExprStmt{X: call("Go", goArg)})
	if len(pre) == 1 {
		return pre[0]
	}
	return &ast.BlockStmt{List: pre}
}

// insertSteps inserts vsched.Step() before every statement of every block.
func insertSteps(body *ast.BlockStmt) {
	var doBlock func(list []ast.Stmt) []ast.Stmt
	step := func() ast.Stmt { return &ast.ExprStmt{X: call("Step")} }
	var visit func(s ast.Stmt)
	visit = func(s ast.Stmt) {
		switch n := s.(type) {
		case *ast.BlockStmt:
			n.List = doBlock(n.List)
		case *ast.IfStmt:
			n.Body.List = doBlock(n.Body.List)
			if n.Else != nil {
				visit(n.Else)
			}
		case *ast.ForStmt:
			n.Body.List = doBlock(n.Body.List)
		case *ast.RangeStmt:
			n.Body.List = doBlock(n.Body.List)
		case *ast.SwitchStmt:
			for _, c := range n.Body.List {
				cc := c.(*ast.CaseClause)
				cc.Body = doBlock(cc.Body)
			}
		case *ast.TypeSwitchStmt:
			for _, c := range n.Body.List {
				cc := c.(*ast.CaseClause)
				cc.Body = doBlock(cc.Body)
			}
		case *ast.SelectStmt:
			for _, c := range n.Body.List {
				cc := c.(*ast.CommClause)
				cc.Body = doBlock(cc.Body)
			}
		case *ast.LabeledStmt:
			visit(n.Stmt)
		}
	}
	doBlock = func(list []ast.Stmt) []ast.Stmt {
		var out []ast.Stmt
		for _, s := range list {
			visit(s)
			if _, isDecl := s.(*ast.DeclStmt); !isDecl {
				if ls, ok := s.(*ast.LabeledStmt); ok {
					// keep the label on the statement; put the step inside if possible
					_ = ls
				} else {
					out = append(out, step())
				}
			}
			out = append(out, s)
		}
		return out
	}
	body.List = doBlock(body.List)
}
