//go:build verif

// Package vtime replaces "time" in rewritten sources: the clock and all timers
// are virtual under the controlled scheduler (a timer is a pseudo-thread whose
// firing is an explorer choice); outside a controlled execution everything is
// the real package.
package vtime

import (
	"time"

	"github.com/postalsys/muti-metroo/internal/vmc/sched"
)

type (
	Time     = time.Time
	Duration = time.Duration
	Month    = time.Month
	Weekday  = time.Weekday
	Location = time.Location
)

const (
	Nanosecond  = time.Nanosecond
	Microsecond = time.Microsecond
	Millisecond = time.Millisecond
	Second      = time.Second
	Minute      = time.Minute
	Hour        = time.Hour

	RFC3339     = time.RFC3339
	RFC3339Nano = time.RFC3339Nano
	RFC1123     = time.RFC1123
	RFC822      = time.RFC822
	Kitchen     = time.Kitchen
	DateTime    = time.DateTime
	DateOnly    = time.DateOnly
	TimeOnly    = time.TimeOnly
	January     = time.January
)

var (
	UTC   = time.UTC
	Local = time.Local
)

func Unix(sec, nsec int64) Time                 { return time.Unix(sec, nsec) }
func UnixMilli(ms int64) Time                   { return time.UnixMilli(ms) }
func UnixMicro(us int64) Time                   { return time.UnixMicro(us) }
func Parse(layout, value string) (Time, error)  { return time.Parse(layout, value) }
func ParseDuration(s string) (Duration, error)  { return time.ParseDuration(s) }
func Date(y int, m Month, d, h, mi, s, ns int, loc *Location) Time {
	return time.Date(y, m, d, h, mi, s, ns, loc)
}

// Clock, if set, is the time source outside a controlled execution (event-level
// simulations own the clock through it).
var Clock func() Time

func Now() Time {
	if !sched.Active() {
		if Clock != nil {
			return Clock()
		}
		return time.Now()
	}
	return sched.Now()
}
func Since(t Time) Duration { return Now().Sub(t) }
func Until(t Time) Duration { return t.Sub(Now()) }

// Timer mirrors time.Timer.
type Timer struct {
	C    <-chan Time
	c    chan Time
	h    *sched.TimerHandle
	real *time.Timer
}

func NewTimer(d Duration) *Timer {
	if !sched.Active() {
		rt := time.NewTimer(d)
		return &Timer{C: rt.C, real: rt}
	}
	t := &Timer{c: make(chan Time, 1)}
	t.C = t.c
	t.h = sched.NewTimerFire(d, "timer", func() {
		select {
		case t.c <- sched.Now():
		default:
		}
	})
	return t
}

func AfterFunc(d Duration, f func()) *Timer {
	if !sched.Active() {
		return &Timer{real: time.AfterFunc(d, f)}
	}
	t := &Timer{}
	t.h = sched.NewTimerSpawn(d, "afterfunc", f)
	return t
}

func (t *Timer) Stop() bool {
	if t.real != nil {
		return t.real.Stop()
	}
	if sched.Active() {
		sched.Point("Timer.Stop")
	}
	return t.h.Stop()
}

func (t *Timer) Reset(d Duration) bool {
	if t.real != nil {
		return t.real.Reset(d)
	}
	if sched.Active() {
		sched.Point("Timer.Reset")
	}
	return t.h.Reset(d)
}

func After(d Duration) <-chan Time { return NewTimer(d).C }

func Sleep(d Duration) {
	if !sched.Active() {
		time.Sleep(d)
		return
	}
	sched.Recv(After(d))
}

// Ticker mirrors time.Ticker.
type Ticker struct {
	C    <-chan Time
	c    chan Time
	h    *sched.TimerHandle
	d    Duration
	real *time.Ticker
}

func NewTicker(d Duration) *Ticker {
	if !sched.Active() {
		rt := time.NewTicker(d)
		return &Ticker{C: rt.C, real: rt}
	}
	t := &Ticker{c: make(chan Time, 1), d: d}
	t.C = t.c
	var fire func()
	fire = func() {
		select {
		case t.c <- sched.Now():
		default:
		}
		t.h.Reset(t.d)
	}
	t.h = sched.NewTimerFire(d, "ticker", func() { fire() })
	return t
}

func (t *Ticker) Stop() {
	if t.real != nil {
		t.real.Stop()
		return
	}
	t.h.Stop()
}

func (t *Ticker) Reset(d Duration) {
	if t.real != nil {
		t.real.Reset(d)
		return
	}
	t.d = d
	t.h.Reset(d)
}

func Tick(d Duration) <-chan Time { return NewTicker(d).C }
