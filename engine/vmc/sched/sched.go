//go:build verif

// Package sched is the controlled cooperative scheduler of the /verif framework
// (engine E3). Harness threads are real goroutines, but exactly one holds the
// run token; every hooked operation (lock, atomic, channel op, select, spawn,
// timer) is a scheduling point at which the explorer (vmc.Chooser) picks the
// next thread among those whose pending operation is enabled.
//
// When no scheduler is active (Active() == false) every shim falls back to the
// real primitive, so rewritten packages behave normally outside sched.Run.
package sched

import (
	"fmt"
	"reflect"
	"runtime"
	"sort"
	"sync"
	"sync/atomic"
	"time"

	"github.com/postalsys/muti-metroo/internal/vmc"
)

type thread struct {
	id      int
	name    string
	wake    chan struct{}
	done    bool
	enabled func() bool
	op      string
	started bool
}

type timer struct {
	id       int
	deadline time.Duration // virtual
	armed    bool
	fire     func() // runs in the token holder's context; must not block
	spawn    func() // if non-nil: runs as a fresh thread (AfterFunc callback)
	label    string
}

// Outcome describes how one controlled execution ended.
type Outcome struct {
	Deadlock bool     // no enabled thread, no armed timer, some thread not finished
	Horizon  bool     // step limit hit (livelock / unbounded polling)
	Blocked  []string // pending operations of unfinished threads at the end
	Steps    int
	Panic    any // first panic raised by a harness thread (nil if none)
	PanicStack string
}

// S is one controlled execution.
type S struct {
	c        *vmc.Chooser
	threads  []*thread
	cur      *thread
	now      time.Duration
	timers   []*timer
	aborted  bool
	out      Outcome
	maxSteps int
	finished chan struct{}
	wg       sync.WaitGroup
	finOnce  sync.Once
	// TimerCost is the deviation cost of firing a timer while a real thread is enabled.
	timerCost int
	log       []string
	logOn     bool
	managed   sync.Map // goroutine id -> struct{}: the goroutines that are threads of this execution
}

var cur *S

// Active reports whether a controlled execution is in progress AND the caller is one of its threads.
// A harness that also has free-running goroutines calling rewritten code (agents' background loops,
// read loops of earlier worlds) sets StrictIdentity: a goroutine that is not a thread of the execution
// then falls back to the real primitives even while an execution is active. Goroutines spawned through
// the Go shim outside an execution switch the identity check on by themselves.
func Active() bool { return current() != nil }

// StrictIdentity makes every shim operation check that the calling goroutine is a controlled thread.
var StrictIdentity bool

var unmanagedSpawned atomic.Int64

func current() *S {
	s := cur
	if s == nil || s.aborted {
		return nil
	}
	if !StrictIdentity && unmanagedSpawned.Load() == 0 {
		return s
	}
	if _, ok := s.managed.Load(goid()); ok {
		return s
	}
	return nil
}

// goid parses the goroutine id from the stack header ("goroutine 123 [running]:").
func goid() uint64 {
	var buf [40]byte
	n := runtime.Stack(buf[:], false)
	var id uint64
	for _, ch := range buf[len("goroutine "):n] {
		if ch < '0' || ch > '9' {
			break
		}
		id = id*10 + uint64(ch-'0')
	}
	return id
}

// Opts configures Run.
type Opts struct {
	MaxSteps  int  // horizon (default 20000 points)
	TimerCost int  // cost of "timer lands first" (default 1)
	Log       bool // record the schedule (thread/op per step) in Outcome via Log()
}

type abortSignal struct{}

// Base is the virtual epoch: vtime.Now() returns Base + virtual elapsed time.
var Base = time.Date(2030, 1, 1, 0, 0, 0, 0, time.UTC)

// Run executes main as thread 0 under the scheduler and returns when every
// thread has finished, or on deadlock / horizon.
func Run(c *vmc.Chooser, opts Opts, main func()) Outcome {
	if cur != nil {
		panic("sched: nested Run")
	}
	s := &S{c: c, maxSteps: opts.MaxSteps, finished: make(chan struct{}), timerCost: opts.TimerCost, logOn: opts.Log}
	if s.maxSteps == 0 {
		s.maxSteps = 20000
	}
	if opts.TimerCost == 0 {
		s.timerCost = 1
	}
	cur = s
	t0 := s.newThread("main", main)
	s.cur = t0
	t0.wake <- struct{}{}
	<-s.finished
	s.wg.Wait()
	cur = nil
	return s.out
}

// Log returns the recorded schedule of the last/ongoing execution (Opts.Log).
func (s *S) Log() []string { return s.log }

// Observer, if set by the harness, runs at every scheduling point in the
// token holder's context (it must not call shim operations).
var Observer func()

// LastLog is set by Run when Opts.Log is on.
var LastLog []string

func (s *S) newThread(name string, f func()) *thread {
	t := &thread{id: len(s.threads), name: name, wake: make(chan struct{}, 1), op: "start"}
	s.threads = append(s.threads, t)
	s.wg.Add(1)
	go func() {
		defer s.wg.Done()
		s.managed.Store(goid(), struct{}{})
		<-t.wake
		if s.aborted {
			t.done = true
			return
		}
		t.started = true
		func() {
			defer func() {
				if r := recover(); r != nil {
					if _, ok := r.(abortSignal); ok {
						return
					}
					if s.out.Panic == nil {
						s.out.Panic = r
						buf := make([]byte, 8192)
						s.out.PanicStack = string(buf[:runtime.Stack(buf, false)])
					}
				}
			}()
			f()
		}()
		t.done = true
		if s.aborted {
			return
		}
		if s.out.Panic != nil {
			s.abort()
			return
		}
		s.reschedule(t)
	}()
	return t
}

// abort ends the execution: every parked thread is woken and exits.
func (s *S) abort() {
	if s.aborted {
		return
	}
	s.aborted = true
	for _, t := range s.threads {
		if !t.done {
			s.out.Blocked = append(s.out.Blocked, fmt.Sprintf("%s#%d:%s", t.name, t.id, t.op))
		}
	}
	if s.logOn {
		LastLog = s.log
	}
	for _, t := range s.threads {
		select {
		case t.wake <- struct{}{}:
		default:
		}
	}
	s.finOnce.Do(func() { close(s.finished) })
}

func (s *S) finish() {
	if s.logOn {
		LastLog = s.log
	}
	s.finOnce.Do(func() { close(s.finished) })
}

// reschedule is called by the token holder (self) at a scheduling point
// (self.enabled describes its pending op) or when it has finished.
func (s *S) reschedule(self *thread) {
	for {
		s.out.Steps++
		if Observer != nil {
			Observer()
		}
		if s.out.Steps > s.maxSteps {
			s.out.Horizon = true
			s.abort()
			s.exitSelf(self)
			return
		}
		selfEnabled := !self.done && (self.enabled == nil || self.enabled())
		var cands []*thread
		if selfEnabled {
			cands = append(cands, self)
		}
		for _, t := range s.threads {
			if t == self || t.done {
				continue
			}
			if t.enabled == nil || t.enabled() {
				cands = append(cands, t)
			}
		}
		var armed []*timer
		for _, tm := range s.timers {
			if tm.armed {
				armed = append(armed, tm)
			}
		}
		sort.SliceStable(armed, func(i, j int) bool {
			if armed[i].deadline != armed[j].deadline {
				return armed[i].deadline < armed[j].deadline
			}
			return armed[i].id < armed[j].id
		})
		if len(cands) == 0 && len(armed) == 0 {
			alldone := true
			for _, t := range s.threads {
				if !t.done {
					alldone = false
				}
			}
			if alldone {
				s.finish()
				return
			}
			s.out.Deadlock = true
			s.abort()
			s.exitSelf(self)
			return
		}
		// timers
		fireTimer := -1
		if len(armed) > 0 {
			if len(cands) == 0 {
				// idle: virtual time advances to the earliest deadline; firing a later one first is a deviation
				fireTimer = s.c.Choose(len(armed), s.timerCost, "idle-timer")
			} else {
				if s.c.Choose(2, s.timerCost, "timer-first?") == 1 {
					fireTimer = s.c.Choose(len(armed), 0, "which-timer")
				}
			}
		}
		if fireTimer >= 0 {
			tm := armed[fireTimer]
			tm.armed = false
			if tm.deadline > s.now {
				s.now = tm.deadline
			}
			if s.logOn {
				s.log = append(s.log, "timer:"+tm.label)
			}
			if tm.spawn != nil {
				nt := s.newThread("timer:"+tm.label, tm.spawn)
				s.switchTo(self, nt)
				return
			}
			tm.fire()
			continue // re-evaluate enabledness
		}
		cost := 0
		if selfEnabled {
			cost = 1 // switching away from a runnable thread is a preemption
		}
		pick := 0
		if len(cands) > 1 {
			pick = s.c.Choose(len(cands), cost, "thread")
		}
		next := cands[pick]
		if s.logOn {
			s.log = append(s.log, fmt.Sprintf("%s#%d:%s", next.name, next.id, next.op))
		}
		s.switchTo(self, next)
		return
	}
}

func (s *S) exitSelf(self *thread) {
	if !self.done {
		self.done = true
		runtime.Goexit()
	}
}

func (s *S) switchTo(self, next *thread) {
	if next == self {
		return
	}
	s.cur = next
	next.wake <- struct{}{}
	if self.done {
		return
	}
	<-self.wake
	if s.aborted {
		self.done = true
		runtime.Goexit()
	}
}

// Block parks the calling thread until enabled() holds and the explorer picks it.
func Block(op string, enabled func() bool) {
	s := current()
	if s == nil {
		return
	}
	self := s.cur
	self.op = op
	self.enabled = enabled
	s.reschedule(self)
	self.enabled = nil
	self.op = "running"
}

// Point is a scheduling point at which the caller stays enabled.
func Point(op string) { Block(op, nil) }

// Step is a statement-granularity scheduling point (inserted by the rewriter).
func Step() { Block("step", nil) }

// Go spawns f as a new controlled thread.
func Go(f func()) {
	s := current()
	if s == nil {
		unmanagedSpawned.Add(1)
		go f()
		return
	}
	s.newThread("go", f)
	Point("spawn")
}

// GoNamed is Go with a thread name (harness use).
func GoNamed(name string, f func()) {
	s := current()
	if s == nil {
		unmanagedSpawned.Add(1)
		go f()
		return
	}
	s.newThread(name, f)
	Point("spawn")
}

// ThreadID returns the id of the running thread (-1 outside Run).
func ThreadID() int {
	if cur == nil {
		return -1
	}
	return cur.cur.id
}

// ---------------------------------------------------------------------------
// virtual time
// ---------------------------------------------------------------------------

// Now returns the virtual clock.
func Now() time.Time {
	s := cur
	if s == nil {
		return time.Now()
	}
	return Base.Add(s.now)
}

// Advance moves the virtual clock forward (harness use).
func Advance(d time.Duration) {
	if cur != nil {
		cur.now += d
	}
}

// TimerHandle is an armed/armable virtual timer.
type TimerHandle struct{ tm *timer }

// NewTimerFire registers a timer whose firing runs fire() inline (must not block).
func NewTimerFire(d time.Duration, label string, fire func()) *TimerHandle {
	s := cur
	tm := &timer{id: len(s.timers), deadline: s.now + d, armed: true, fire: fire, label: label}
	s.timers = append(s.timers, tm)
	return &TimerHandle{tm}
}

// NewTimerSpawn registers a timer whose firing runs f as a new thread.
func NewTimerSpawn(d time.Duration, label string, f func()) *TimerHandle {
	s := cur
	tm := &timer{id: len(s.timers), deadline: s.now + d, armed: true, spawn: f, label: label}
	s.timers = append(s.timers, tm)
	return &TimerHandle{tm}
}

// Stop disarms; reports whether it was armed.
func (h *TimerHandle) Stop() bool {
	was := h.tm.armed
	h.tm.armed = false
	return was
}

// Reset re-arms with a new duration; reports whether it was armed.
func (h *TimerHandle) Reset(d time.Duration) bool {
	was := h.tm.armed
	if cur != nil {
		h.tm.deadline = cur.now + d
	}
	h.tm.armed = true
	return was
}

// Armed reports whether the timer is armed.
func (h *TimerHandle) Armed() bool { return h.tm.armed }

// ---------------------------------------------------------------------------
// channels
// ---------------------------------------------------------------------------

func chanClosed(rv reflect.Value) bool {
	x, ok := rv.TryRecv()
	if !x.IsValid() {
		return false // would block: open and empty
	}
	if ok {
		panic("sched: readiness probe consumed a value (unbuffered hand-off with an uncontrolled sender is unsupported)")
	}
	return true
}

// RecvReady reports whether a receive on ch can proceed without blocking.
func RecvReady[T any](ch <-chan T) bool {
	if ch == nil {
		return false
	}
	if len(ch) > 0 {
		return true
	}
	return chanClosed(reflect.ValueOf(ch))
}

// SendReady reports whether a send on ch can proceed without blocking
// (a send on a closed channel "proceeds" by panicking, as in Go).
func SendReady[T any](ch chan<- T) bool {
	if ch == nil {
		return false
	}
	if cap(ch) == 0 {
		panic("sched: send on an unbuffered channel is unsupported by the controlled scheduler")
	}
	return len(ch) < cap(ch)
}

// Recv2 is `v, ok := <-ch`.
func Recv2[T any](ch <-chan T) (T, bool) {
	if Active() {
		Block("recv", func() bool { return RecvReady(ch) })
	}
	v, ok := <-ch
	return v, ok
}

// Recv is `<-ch`.
func Recv[T any](ch <-chan T) T {
	v, _ := Recv2(ch)
	return v
}

// Send blocks until a send on ch can proceed, then runs do (which performs the real send).
func Send[T any](ch chan<- T, do func()) {
	if Active() {
		Block("send", func() bool { return SendReady(ch) })
	}
	do()
}

// Close is close(ch) preceded by a scheduling point.
func Close[T any](ch chan<- T) {
	if Active() {
		Point("close")
	}
	close(ch)
}

// Case is one communication clause of a select.
type Case struct {
	ready func() bool
}

// R is a receive case.
func R[T any](ch <-chan T) Case { return Case{func() bool { return RecvReady(ch) }} }

// W is a send case.
func W[T any](ch chan<- T) Case { return Case{func() bool { return SendReady(ch) }} }

// Select returns the index of a ready case chosen by the explorer, or -1 for
// the default clause. Without a default it blocks until some case is ready.
// Outside a controlled execution it returns -2 ("use the real select").
func Select(hasDefault bool, cases ...Case) int {
	if !Active() {
		return -2
	}
	s := cur
	Block("select", func() bool {
		if hasDefault {
			return true
		}
		for _, c := range cases {
			if c.ready() {
				return true
			}
		}
		return false
	})
	var ready []int
	for i, c := range cases {
		if c.ready() {
			ready = append(ready, i)
		}
	}
	if len(ready) == 0 {
		return -1
	}
	if len(ready) == 1 {
		return ready[0]
	}
	// Go chooses uniformly among ready cases: a free choice for the explorer
	return ready[s.c.Choose(len(ready), 0, "select-case")]
}

// RealSelect is the fallback of a rewritten select when no controlled
// execution is active (harness set-up code): it polls readiness.
func RealSelect(hasDefault bool, cases ...Case) int {
	for {
		for i, c := range cases {
			if c.ready() {
				return i
			}
		}
		if hasDefault {
			return -1
		}
		time.Sleep(50 * time.Microsecond)
	}
}
