//go:build verif

// Package vsync replaces "sync" in rewritten sources: every operation is a
// scheduling point of the controlled scheduler; outside a controlled
// execution the real primitive is used.
package vsync

import (
	"sync"
	"sync/atomic"

	"github.com/postalsys/muti-metroo/internal/vmc/sched"
)

type Locker = sync.Locker
type Map = sync.Map
type Pool = sync.Pool

// Mutex is a controlled mutex.
type Mutex struct {
	real   sync.Mutex
	locked bool
	// realHeld: the REAL mutex is held by a goroutine outside the controlled execution (agents'
	// background loops run rewritten code beside the executions). Such a goroutine pairs its own real
	// Lock / Unlock; without this flag its Unlock would release a LOGICAL hold of a controlled thread.
	realHeld atomic.Int32
}

func (m *Mutex) Lock() {
	if !sched.Active() {
		m.real.Lock()
		m.realHeld.Store(1)
		return
	}
	sched.Block("Mutex.Lock", func() bool { return !m.locked })
	m.locked = true
}

func (m *Mutex) TryLock() bool {
	if !sched.Active() {
		ok := m.real.TryLock()
		if ok {
			m.realHeld.Store(1)
		}
		return ok
	}
	sched.Point("Mutex.TryLock")
	if m.locked {
		return false
	}
	m.locked = true
	return true
}

func (m *Mutex) Unlock() {
	if !sched.Active() {
		if m.realHeld.Load() == 0 && m.locked { // locked under the scheduler, released during abort/unwind
			m.locked = false
			return
		}
		m.realHeld.Store(0)
		m.real.Unlock()
		return
	}
	if !m.locked {
		panic("vsync: unlock of unlocked mutex")
	}
	sched.Point("Mutex.Unlock")
	m.locked = false
}

// RWMutex is a controlled reader/writer mutex.
type RWMutex struct {
	real    sync.RWMutex
	writer  bool
	readers int
	// holds of the REAL lock by goroutines outside the controlled execution (see Mutex.realHeld)
	realWriter  atomic.Int32
	realReaders atomic.Int32
}

func (m *RWMutex) Lock() {
	if !sched.Active() {
		m.real.Lock()
		m.realWriter.Store(1)
		return
	}
	sched.Block("RWMutex.Lock", func() bool { return !m.writer && m.readers == 0 })
	m.writer = true
}

func (m *RWMutex) Unlock() {
	if !sched.Active() {
		if m.realWriter.Load() == 0 && m.writer {
			m.writer = false
			return
		}
		m.realWriter.Store(0)
		m.real.Unlock()
		return
	}
	if !m.writer {
		panic("vsync: unlock of unlocked RWMutex")
	}
	sched.Point("RWMutex.Unlock")
	m.writer = false
}

func (m *RWMutex) RLock() {
	if !sched.Active() {
		m.real.RLock()
		m.realReaders.Add(1)
		return
	}
	sched.Block("RWMutex.RLock", func() bool { return !m.writer })
	m.readers++
}

func (m *RWMutex) RUnlock() {
	if !sched.Active() {
		if m.realReaders.Load() == 0 && m.readers > 0 {
			m.readers--
			return
		}
		m.realReaders.Add(-1)
		m.real.RUnlock()
		return
	}
	if m.readers <= 0 {
		panic("vsync: RUnlock of unlocked RWMutex")
	}
	sched.Point("RWMutex.RUnlock")
	m.readers--
}

func (m *RWMutex) RLocker() Locker { return (*rlocker)(m) }

type rlocker RWMutex

func (r *rlocker) Lock()   { (*RWMutex)(r).RLock() }
func (r *rlocker) Unlock() { (*RWMutex)(r).RUnlock() }

// WaitGroup is a controlled wait group.
type WaitGroup struct {
	real sync.WaitGroup
	n    int
}

func (w *WaitGroup) Add(d int) {
	if !sched.Active() {
		w.real.Add(d)
		return
	}
	sched.Point("WaitGroup.Add")
	w.n += d
	if w.n < 0 {
		panic("vsync: negative WaitGroup counter")
	}
}

func (w *WaitGroup) Done() {
	if !sched.Active() {
		if w.n > 0 {
			w.n--
			return
		}
		w.real.Done()
		return
	}
	w.Add(-1)
}

func (w *WaitGroup) Wait() {
	if !sched.Active() {
		if w.n > 0 {
			return
		}
		w.real.Wait()
		return
	}
	sched.Block("WaitGroup.Wait", func() bool { return w.n == 0 })
}

// Once is a controlled once.
type Once struct {
	real    sync.Once
	done    bool
	running bool
}

func (o *Once) Do(f func()) {
	if !sched.Active() {
		if o.done {
			return
		}
		o.real.Do(f)
		return
	}
	sched.Block("Once.Do", func() bool { return !o.running })
	if o.done {
		return
	}
	o.running = true
	defer func() {
		o.done = true
		o.running = false
	}()
	f()
}
