//go:build verif

// Package vmc is the explorer core of the /verif model-checking framework.
// It is overlaid into the repository as internal/vmc at check time.
package vmc

import (
	"runtime"
	"crypto/sha256"
	"encoding/hex"
	"encoding/json"
	"fmt"
	"os"
	"sort"
	"strconv"
	"strings"
	"sync"
	"time"
)

// Violation is one property violation found by a harness. Fingerprint identifies
// the (oracle clause, call site, minimal distinguishing input); known findings are
// matched on it by bin/check.
type Violation struct {
	Fingerprint string `json:"fingerprint"`
	What        string `json:"what"`
	Replay      any    `json:"replay"`
	Count       int    `json:"count"`
}

// Result accumulates what one run of a harness covered. It is safe for
// concurrent use. bin/check merges the results of all shards and turns them
// into /verif/evidence/<id>.json.
type Result struct {
	mu sync.Mutex

	PropertyID  string                 `json:"property_id"`
	Level       string                 `json:"level"`
	Tier        string                 `json:"tier"`
	Seed        int                    `json:"seed"`
	Shard       int                    `json:"shard"`
	Shards      int                    `json:"shards"`
	Counters    map[string]int64       `json:"counters"`
	Max         map[string]int64       `json:"max"`
	Sets        map[string][]string    `json:"sets"`
	Info        map[string]any         `json:"info"`
	Rule        string                 `json:"rule"`
	Samples     []any                  `json:"samples"`
	Assumptions []string               `json:"assumptions"`
	Violations  []*Violation           `json:"violations"`
	Exhaustive  bool                   `json:"exhaustive"`
	WallS       float64                `json:"wall_s"`
	HarnessErr  string                 `json:"harness_error,omitempty"`
	sets        map[string]map[string]struct{}
	start       time.Time
	deadline    time.Time
	maxSamples  int
	vio         map[string]*Violation
	memBudget   uint64 // bytes of heap this process may use (VERIF_MEM_MB); 0 = no budget
	memChecks   uint64
	memHit      bool
	Replaying   bool   `json:"replaying"`
	replayData  []byte `json:"-"`
}

// New creates the Result for a harness. Environment: VERIF_TIER (quick|thorough),
// VERIF_SEED, VERIF_SHARD ("i/n"), VERIF_OUT (result file), VERIF_DEADLINE_S,
// VERIF_REPLAY (path of a replay artefact: the harness then only re-runs that case).
func New(id, level string) *Result {
	r := &Result{
		PropertyID: id, Level: level, Tier: "quick", Shards: 1,
		Counters: map[string]int64{}, Max: map[string]int64{}, Sets: map[string][]string{},
		Info: map[string]any{}, sets: map[string]map[string]struct{}{},
		vio: map[string]*Violation{}, start: time.Now(), Exhaustive: true, maxSamples: 6,
	}
	if t := os.Getenv("VERIF_TIER"); t == "thorough" {
		r.Tier = "thorough"
	}
	if s := os.Getenv("VERIF_SEED"); s != "" {
		r.Seed, _ = strconv.Atoi(s)
	}
	if s := os.Getenv("VERIF_SHARD"); s != "" {
		parts := strings.Split(s, "/")
		if len(parts) == 2 {
			r.Shard, _ = strconv.Atoi(parts[0])
			r.Shards, _ = strconv.Atoi(parts[1])
			if r.Shards < 1 {
				r.Shards = 1
			}
		}
	}
	dl := 0.0
	if s := os.Getenv("VERIF_DEADLINE_S"); s != "" {
		dl, _ = strconv.ParseFloat(s, 64)
	}
	if dl > 0 {
		r.deadline = r.start.Add(time.Duration(dl * float64(time.Second)))
	}
	if s := os.Getenv("VERIF_MEM_MB"); s != "" {
		mb, _ := strconv.ParseUint(s, 10, 64)
		r.memBudget = mb << 20
	}
	if p := os.Getenv("VERIF_REPLAY"); p != "" {
		b, err := os.ReadFile(p)
		if err != nil {
			panic("vmc: cannot read replay file: " + err.Error())
		}
		var wrap struct {
			Replay json.RawMessage `json:"replay"`
		}
		if json.Unmarshal(b, &wrap) == nil && len(wrap.Replay) > 0 {
			r.replayData = wrap.Replay
		} else {
			r.replayData = b
		}
		r.Replaying = true
	}
	return r
}

// Thorough reports whether the thorough tier was requested.
func (r *Result) Thorough() bool { return r.Tier == "thorough" }

// Pick returns q in the quick tier and t in the thorough tier.
func Pick[T any](r *Result, q, t T) T {
	if r.Thorough() {
		return t
	}
	return q
}

// ReplayInto decodes the replay artefact (if any) into v and reports whether
// the harness is in replay mode.
func (r *Result) ReplayInto(v any) bool {
	if !r.Replaying {
		return false
	}
	if err := json.Unmarshal(r.replayData, v); err != nil {
		panic("vmc: replay artefact does not decode: " + err.Error())
	}
	return true
}

// Expired reports whether the internal deadline has passed; the first time it
// does, the run is marked non-exhaustive.
func (r *Result) Expired() bool {
	if r.overMemory() {
		return true
	}
	if r.deadline.IsZero() || time.Now().Before(r.deadline) {
		return false
	}
	r.mu.Lock()
	r.Exhaustive = false
	r.Info["deadline_hit"] = true
	r.mu.Unlock()
	return true
}

// overMemory reports whether the process heap has passed its budget (checked on a
// fraction of the calls: ReadMemStats stops the world). Like the deadline it ends the
// enumeration early with exhaustive:false -- never an alarm, never a crash of the check.
func (r *Result) overMemory() bool {
	if r.memBudget == 0 {
		return false
	}
	r.mu.Lock()
	hit := r.memHit
	r.memChecks++
	n := r.memChecks
	r.mu.Unlock()
	if hit {
		return true
	}
	if n%64 != 1 {
		return false
	}
	var ms runtime.MemStats
	runtime.ReadMemStats(&ms)
	if ms.HeapAlloc < r.memBudget {
		return false
	}
	// HeapAlloc includes garbage not yet collected (harnesses rebuild whole agents per
	// transition and run with a high GOGC): collect, then judge the LIVE heap.
	runtime.GC()
	runtime.ReadMemStats(&ms)
	if ms.HeapAlloc < r.memBudget/2 {
		return false
	}
	r.mu.Lock()
	r.memHit = true
	r.Exhaustive = false
	r.Info["memory_budget_hit_mb"] = r.memBudget >> 20
	r.mu.Unlock()
	return true
}

// Deadline returns the internal deadline (zero if none).
func (r *Result) Deadline() time.Time { return r.deadline }

// NotExhaustive marks the run as capped, with the reason.
func (r *Result) NotExhaustive(why string) {
	r.mu.Lock()
	r.Exhaustive = false
	r.Info["cap"] = why
	r.mu.Unlock()
}

// Add adds n to a counter ("evaluations", "states", "transitions",
// "traces_validated_against_impl", or any harness-specific name).
func (r *Result) Add(key string, n int64) {
	r.mu.Lock()
	r.Counters[key] += n
	r.mu.Unlock()
}

// SetMax records the maximum of a quantity (e.g. depth or bound completed).
func (r *Result) SetMax(key string, v int64) {
	r.mu.Lock()
	if cur, ok := r.Max[key]; !ok || v > cur {
		r.Max[key] = v
	}
	r.mu.Unlock()
}

// Mark adds an element to a named set; the set sizes are reported as
// distinct counts ("nontrivial" -> distinct_nontrivial, "outcomes" ->
// distinct_outcomes). Long elements are hashed.
func (r *Result) Mark(set, elem string) {
	if len(elem) > 48 {
		h := sha256.Sum256([]byte(elem))
		elem = "#" + hex.EncodeToString(h[:10])
	}
	r.mu.Lock()
	m := r.sets[set]
	if m == nil {
		m = map[string]struct{}{}
		r.sets[set] = m
	}
	m[elem] = struct{}{}
	r.mu.Unlock()
}

// Nontrivial marks a distinct non-trivial case.
func (r *Result) Nontrivial(elem string) { r.Mark("nontrivial", elem) }

// Outcome marks a distinct observed outcome.
func (r *Result) Outcome(elem string) { r.Mark("outcomes", elem) }

// Sample keeps the first few written-out cases.
func (r *Result) Sample(x any) {
	r.mu.Lock()
	if len(r.Samples) < r.maxSamples {
		r.Samples = append(r.Samples, x)
	}
	r.mu.Unlock()
}

// Assume records an assumption / trusted-base statement.
func (r *Result) Assume(s string) {
	r.mu.Lock()
	for _, a := range r.Assumptions {
		if a == s {
			r.mu.Unlock()
			return
		}
	}
	r.Assumptions = append(r.Assumptions, s)
	r.mu.Unlock()
}

// Violate records a violation. The first one per fingerprint is kept as the
// replay artefact (enumeration is simplest-first, so it is the minimal one).
func (r *Result) Violate(fingerprint, what string, replay any) {
	r.mu.Lock()
	defer r.mu.Unlock()
	if v, ok := r.vio[fingerprint]; ok {
		v.Count++
		return
	}
	v := &Violation{Fingerprint: fingerprint, What: what, Replay: replay, Count: 1}
	r.vio[fingerprint] = v
	r.Violations = append(r.Violations, v)
}

// NumViolations returns the number of distinct fingerprints recorded.
func (r *Result) NumViolations() int {
	r.mu.Lock()
	defer r.mu.Unlock()
	return len(r.Violations)
}

// HarnessError records a failure of the machinery itself (never a VIOLATION).
func (r *Result) HarnessError(format string, a ...any) {
	r.mu.Lock()
	if r.HarnessErr == "" {
		r.HarnessErr = fmt.Sprintf(format, a...)
	}
	r.mu.Unlock()
}

// Finish writes the result file named by VERIF_OUT (or prints a summary when
// unset) and returns an error describing a harness failure, if any.
func (r *Result) Finish() error {
	r.mu.Lock()
	defer r.mu.Unlock()
	r.WallS = time.Since(r.start).Seconds()
	for k, m := range r.sets {
		l := make([]string, 0, len(m))
		for e := range m {
			l = append(l, e)
		}
		sort.Strings(l)
		r.Sets[k] = l
	}
	b, err := json.Marshal(r)
	if err != nil {
		return err
	}
	if out := os.Getenv("VERIF_OUT"); out != "" {
		if err := os.WriteFile(out, b, 0o644); err != nil {
			return err
		}
	} else {
		fmt.Printf("vmc result %s: counters=%v max=%v violations=%d exhaustive=%v\n",
			r.PropertyID, r.Counters, r.Max, len(r.Violations), r.Exhaustive)
		for _, v := range r.Violations {
			fmt.Printf("  violation %s: %s\n", v.Fingerprint, v.What)
		}
	}
	if r.HarnessErr != "" {
		return fmt.Errorf("harness error: %s", r.HarnessErr)
	}
	return nil
}

// JSON renders v compactly for samples / canonical keys.
func JSON(v any) string {
	b, _ := json.Marshal(v)
	return string(b)
}
