//go:build verif

// Package vnet is the dial seam of the /verif framework: rewritten sources use
// vnet.Dialer instead of net.Dialer; connections are in-memory, buffered,
// report *net.TCPAddr addresses, and every dial is recorded.
package vnet

import (
	"context"
	"fmt"
	"io"
	"net"
	"sync"
	"time"

	"github.com/postalsys/muti-metroo/internal/vmc/sched"
)

// DialRecord is one recorded dial.
type DialRecord struct {
	Network, Addr string
	OK            bool
}

var (
	mu       sync.Mutex
	handlers = map[string]func(network, addr string) (net.Conn, error){}
	dials    = map[string][]DialRecord{} // by scope
	// Scope maps a destination address to a scope name, so that concurrent
	// harness instances keep separate dial logs.
	Default func(network, addr string) (net.Conn, error)
	all     []DialRecord
)

// Register installs the handler for one destination "ip:port".
func Register(addr string, h func(network, addr string) (net.Conn, error)) {
	mu.Lock()
	handlers[addr] = h
	mu.Unlock()
}

// Handler returns the handler registered for addr (nil if none).
func Handler(addr string) func(network, addr string) (net.Conn, error) {
	mu.Lock()
	defer mu.Unlock()
	return handlers[addr]
}

// Unregister removes a handler.
func Unregister(addr string) {
	mu.Lock()
	delete(handlers, addr)
	mu.Unlock()
}

// Reset clears handlers and the dial log (single-instance harnesses).
func Reset() {
	mu.Lock()
	handlers = map[string]func(network, addr string) (net.Conn, error){}
	all = nil
	Default = nil
	mu.Unlock()
}

// Dials returns a copy of the global dial log.
func Dials() []DialRecord {
	mu.Lock()
	defer mu.Unlock()
	return append([]DialRecord(nil), all...)
}

// Dialer replaces net.Dialer.
type Dialer struct {
	Timeout   time.Duration
	KeepAlive time.Duration
	LocalAddr net.Addr
}

// DialContext resolves the destination through the registered handlers.
func (d *Dialer) DialContext(ctx context.Context, network, addr string) (net.Conn, error) {
	mu.Lock()
	h := handlers[addr]
	if h == nil {
		h = Default
	}
	mu.Unlock()
	var c net.Conn
	var err error
	if h == nil {
		err = &net.OpError{Op: "dial", Net: network, Err: fmt.Errorf("connection refused (vnet: no target registered for %s)", addr)}
	} else {
		c, err = h(network, addr)
	}
	mu.Lock()
	all = append(all, DialRecord{network, addr, err == nil})
	mu.Unlock()
	return c, err
}

// Dial is DialContext with a background context.
func (d *Dialer) Dial(network, addr string) (net.Conn, error) {
	return d.DialContext(context.Background(), network, addr)
}

// half is one direction of a buffered in-memory connection.
type half struct {
	mu     sync.Mutex
	cond   *sync.Cond
	buf    []byte
	closed bool // writer closed: reader gets EOF after draining
	total  int
}

// Conn is one end of an in-memory duplex connection with unbounded buffers:
// Write never blocks, Read blocks until data or EOF.
type Conn struct {
	in, out       *half
	local, remote net.Addr
	rclosed       bool
}

// Pipe returns the two ends of an in-memory connection. a is handed to the code
// under test (it "dialled" remote), b is the harness-owned target side.
func Pipe(local, remote *net.TCPAddr) (a, b *Conn) {
	h1, h2 := &half{}, &half{}
	h1.cond = sync.NewCond(&h1.mu)
	h2.cond = sync.NewCond(&h2.mu)
	a = &Conn{in: h1, out: h2, local: local, remote: remote}
	b = &Conn{in: h2, out: h1, local: remote, remote: local}
	return
}

func (c *Conn) Read(p []byte) (int, error) {
	// under the controlled scheduler a read is a blocking scheduling point: the thread is enabled
	// when bytes are buffered or either side closed (a real cond.Wait would park the token holder)
	if sched.Active() {
		sched.Block("conn-read", func() bool {
			c.in.mu.Lock()
			defer c.in.mu.Unlock()
			return len(c.in.buf) > 0 || c.in.closed || c.rclosed
		})
	}
	c.in.mu.Lock()
	defer c.in.mu.Unlock()
	for len(c.in.buf) == 0 && !c.in.closed && !c.rclosed {
		c.in.cond.Wait()
	}
	if len(c.in.buf) == 0 {
		if c.rclosed {
			return 0, net.ErrClosed
		}
		return 0, io.EOF
	}
	n := copy(p, c.in.buf)
	c.in.buf = c.in.buf[n:]
	return n, nil
}

func (c *Conn) Write(p []byte) (int, error) {
	c.out.mu.Lock()
	defer c.out.mu.Unlock()
	if c.out.closed {
		return 0, io.ErrClosedPipe
	}
	c.out.buf = append(c.out.buf, p...)
	c.out.total += len(p)
	c.out.cond.Broadcast()
	return len(p), nil
}

// CloseWrite half-closes: the peer reads EOF after draining.
func (c *Conn) CloseWrite() error {
	c.out.mu.Lock()
	c.out.closed = true
	c.out.cond.Broadcast()
	c.out.mu.Unlock()
	return nil
}

// Close closes both directions.
func (c *Conn) Close() error {
	c.CloseWrite()
	c.in.mu.Lock()
	c.rclosed = true
	c.in.cond.Broadcast()
	c.in.mu.Unlock()
	return nil
}

// Closed reports whether the peer has closed its write side (harness use).
func (c *Conn) PeerClosed() bool {
	c.in.mu.Lock()
	defer c.in.mu.Unlock()
	return c.in.closed
}

// Drain returns and removes everything buffered for reading, without blocking.
func (c *Conn) Drain() []byte {
	c.in.mu.Lock()
	defer c.in.mu.Unlock()
	b := c.in.buf
	c.in.buf = nil
	return b
}

// Received returns the total number of bytes ever written towards this end.
func (c *Conn) Received() int {
	c.in.mu.Lock()
	defer c.in.mu.Unlock()
	return c.in.total
}

func (c *Conn) LocalAddr() net.Addr                { return c.local }
func (c *Conn) RemoteAddr() net.Addr               { return c.remote }
func (c *Conn) SetDeadline(t time.Time) error      { return nil }
func (c *Conn) SetReadDeadline(t time.Time) error  { return nil }
func (c *Conn) SetWriteDeadline(t time.Time) error { return nil }
