//go:build verif

package vmc

import (
	"crypto/sha256"
	"fmt"
	"sync"
)

// stateID is the stored form of a canonical state key: its 128-bit SHA-256 prefix
// (canonical dumps of whole routing tables run to kilobytes; a few million of them
// do not fit in memory). Two different states are merged only on a hash collision,
// probability about n^2 / 2^129 for n states -- the same trade TLC makes with 64 bits.
type stateID [16]byte

func hashKey(k string) stateID {
	h := sha256.Sum256([]byte(k))
	var id stateID
	copy(id[:], h[:16])
	return id
}

// ---------------------------------------------------------------------------
// Stateless DFS over choice sequences with a deviation bound.
// ---------------------------------------------------------------------------

// Point is one recorded nondeterministic point of an execution.
type Point struct {
	N      int    // number of alternatives
	Picked int    // alternative taken
	Cost   int    // deviation cost of taking any alternative other than 0
	Label  string // for replay artefacts / debugging
}

// Chooser hands out choices during one execution: it replays a prefix, then
// takes alternative 0 ("default environment answer / keep running thread").
type Chooser struct {
	prefix []int
	Trace  []Point
}

// DivergenceError is raised (as a panic) when prefix replay does not see the
// same choice points as the execution that generated the prefix: some source
// of nondeterminism is not owned by the harness.
type DivergenceError struct{ Msg string }

func (e DivergenceError) Error() string { return "vmc: nondeterminism not owned: " + e.Msg }

// Choose returns an index in [0,n). cost is the deviation cost charged for a
// non-zero pick at this point (0 = free choice, explored regardless of bound).
func (c *Chooser) Choose(n int, cost int, label string) int {
	if n <= 0 {
		panic("vmc: Choose with n<=0 at " + label)
	}
	i := len(c.Trace)
	pick := 0
	if i < len(c.prefix) {
		pick = c.prefix[i]
		if pick >= n {
			panic(DivergenceError{fmt.Sprintf("replayed choice %d out of range %d at point %d (%s)", pick, n, i, label)})
		}
	}
	c.Trace = append(c.Trace, Point{N: n, Picked: pick, Cost: cost, Label: label})
	return pick
}

// Choices returns the picks of the execution so far (the replay artefact).
func (c *Chooser) Choices() []int {
	out := make([]int, len(c.Trace))
	for i, p := range c.Trace {
		out[i] = p.Picked
	}
	return out
}

// NewReplayChooser builds a chooser that replays exactly the given choices.
func NewReplayChooser(choices []int) *Chooser { return &Chooser{prefix: choices} }

// DFSOpts configures Explore.
type DFSOpts struct {
	Bound    int // maximum total deviation cost; <0 = unbounded
	MaxExecs int64
	// Visited, if non-nil, is consulted after every execution with a key
	// describing the *global state at each point*; not used by default.
}

// DFSStats is what Explore covered.
type DFSStats struct {
	Executions int64
	Points     int64
	MaxPoints  int
	Complete   bool
}

type dfsItem struct {
	prefix []int
	cost   int
}

// Explore enumerates every execution of run whose total deviation cost is
// within opts.Bound. run must be deterministic given the chooser. Sharding:
// when r.Shards > 1 the root and its first-level alternatives are executed by
// every shard (counted by shard 0 only) and the second-level subtrees are
// dealt round-robin to the shards.
func Explore(r *Result, run func(c *Chooser), opts DFSOpts) DFSStats {
	st := DFSStats{Complete: true}
	count := func(c *Chooser, counted bool) {
		if !counted {
			return
		}
		st.Executions++
		st.Points += int64(len(c.Trace))
		if len(c.Trace) > st.MaxPoints {
			st.MaxPoints = len(c.Trace)
		}
	}
	// expand runs one prefix and returns its children.
	expand := func(it dfsItem, counted bool) []dfsItem {
		c := &Chooser{prefix: it.prefix}
		run(c)
		if len(c.Trace) < len(it.prefix) {
			panic(DivergenceError{fmt.Sprintf("execution ended after %d points while replaying a prefix of %d", len(c.Trace), len(it.prefix))})
		}
		count(c, counted)
		var kids []dfsItem
		cost := it.cost
		for i := len(it.prefix); i < len(c.Trace); i++ {
			p := c.Trace[i]
			if p.N > 1 {
				nc := cost + p.Cost
				if opts.Bound < 0 || nc <= opts.Bound {
					for alt := 1; alt < p.N; alt++ {
						np := make([]int, i+1)
						for j := 0; j < i; j++ {
							np[j] = c.Trace[j].Picked
						}
						np[i] = alt
						kids = append(kids, dfsItem{prefix: np, cost: nc})
					}
				}
			}
		}
		return kids
	}
	var stack []dfsItem
	if r.Shards <= 1 {
		stack = []dfsItem{{}}
	} else {
		lvl1 := expand(dfsItem{}, r.Shard == 0)
		idx := 0
		for _, it := range lvl1 {
			lvl2 := expand(it, r.Shard == 0)
			for _, it2 := range lvl2 {
				if idx%r.Shards == r.Shard {
					stack = append(stack, it2)
				}
				idx++
			}
		}
	}
	for len(stack) > 0 {
		if r.Expired() || (opts.MaxExecs > 0 && st.Executions >= opts.MaxExecs) {
			st.Complete = false
			r.NotExhaustive("execution cap or deadline hit during DFS")
			break
		}
		it := stack[len(stack)-1]
		stack = stack[:len(stack)-1]
		kids := expand(it, true)
		// push in reverse so that the simplest alternative is explored first
		for i := len(kids) - 1; i >= 0; i-- {
			stack = append(stack, kids[i])
		}
	}
	return st
}

// ExploreIterative runs Explore with bounds 0..maxBound and records the bound
// completed. Executions of lower bounds are re-run at higher bounds (the
// counts reported are those of the last completed bound).
func ExploreIterative(r *Result, run func(c *Chooser), maxBound int) DFSStats {
	var last DFSStats
	for b := 0; b <= maxBound; b++ {
		st := Explore(r, run, DFSOpts{Bound: b})
		if !st.Complete {
			break
		}
		last = st
		r.SetMax("deviation_bound_completed", int64(b))
		if r.NumViolations() > 0 {
			// the first counterexamples have the fewest deviations; keep going
			// only to the requested bound if cheap
		}
	}
	return last
}

// ---------------------------------------------------------------------------
// Explicit-state BFS over event histories of real objects.
// ---------------------------------------------------------------------------

// BFSOpts configures BFS.
type BFSOpts struct {
	MaxDepth  int
	Workers   int // goroutines; 1 if the harness uses package-level state
	MaxStates int
}

// BFSStats is what BFS covered.
type BFSStats struct {
	States      int64
	Transitions int64
	Depth       int
	Complete    bool // fixpoint reached (no new state at the last level) within MaxDepth
	DepthCapped bool
}

// BFS explores the reachable state space. step(hist) must build a fresh real
// instance, replay hist (a sequence of event labels) on it, check the harness's
// invariants for the last step, and return the canonical key of the reached
// state plus the events enabled in it. Real objects cannot be cloned, so a
// successor is computed by replaying the shortest history reaching the state
// plus one event.
func BFS[E any](r *Result, step func(hist []E) (key string, enabled []E), opts BFSOpts) BFSStats {
	if opts.Workers < 1 {
		opts.Workers = 1
	}
	st := BFSStats{}
	type node struct {
		hist    []E
		enabled []E
	}
	seen := map[stateID]struct{}{}
	k0, en0 := step(nil)
	seen[hashKey(k0)] = struct{}{}
	frontier := []node{{nil, en0}}
	st.States = 1
	depth := 0
	for len(frontier) > 0 {
		if opts.MaxDepth > 0 && depth >= opts.MaxDepth {
			st.DepthCapped = true
			break
		}
		// a job is (frontier node, event): the history is materialised only while it runs
		type job struct {
			parent int
			ev     E
		}
		var jobs []job
		for pi, n := range frontier {
			for _, ev := range n.enabled {
				jobs = append(jobs, job{pi, ev})
			}
		}
		histOf := func(j job) []E {
			ph := frontier[j.parent].hist
			h := make([]E, len(ph)+1)
			copy(h, ph)
			h[len(ph)] = j.ev
			return h
		}
		type res struct {
			key     stateID
			enabled []E
			done    bool
		}
		results := make([]res, len(jobs))
		var wg sync.WaitGroup
		var next int64
		var mu sync.Mutex
		expired := false
		for w := 0; w < opts.Workers; w++ {
			wg.Add(1)
			go func() {
				defer wg.Done()
				for {
					mu.Lock()
					i := next
					next++
					mu.Unlock()
					if i >= int64(len(jobs)) {
						return
					}
					if i%64 == 0 && r.Expired() {
						mu.Lock()
						expired = true
						mu.Unlock()
					}
					mu.Lock()
					ex := expired
					mu.Unlock()
					if ex {
						return
					}
					k, en := step(histOf(jobs[i]))
					results[i] = res{hashKey(k), en, true}
				}
			}()
		}
		wg.Wait()
		var nf []node
		for i, rs := range results {
			if !rs.done {
				continue
			}
			st.Transitions++
			if _, ok := seen[rs.key]; ok {
				continue
			}
			seen[rs.key] = struct{}{}
			st.States++
			nf = append(nf, node{histOf(jobs[i]), rs.enabled})
		}
		depth++
		st.Depth = depth
		if expired {
			r.NotExhaustive(fmt.Sprintf("deadline hit during BFS level %d", depth))
			return st
		}
		if opts.MaxStates > 0 && int(st.States) > opts.MaxStates {
			r.NotExhaustive(fmt.Sprintf("state cap %d hit at BFS level %d", opts.MaxStates, depth))
			return st
		}
		frontier = nf
	}
	st.Complete = len(frontier) == 0
	return st
}

// ---------------------------------------------------------------------------
// Owned map iteration order (used by sources rewritten with tools/maprange)
// ---------------------------------------------------------------------------

// MapOrderHook, if non-nil, may permute the sorted key order of a map range:
// it receives the number of keys and returns the index order to use.
var MapOrderHook func(n int) []int

// MapKeys returns the keys of m in a deterministic (sorted) order, optionally
// permuted by MapOrderHook.
func MapKeys[M ~map[K]V, K comparable, V any](m M) []K {
	keys := make([]K, 0, len(m))
	for k := range m {
		keys = append(keys, k)
	}
	if len(keys) > 1 {
		strs := make([]string, len(keys))
		for i, k := range keys {
			strs[i] = keyString(k)
		}
		idx := make([]int, len(keys))
		for i := range idx {
			idx[i] = i
		}
		sortIdx(idx, strs)
		out := make([]K, len(keys))
		for i, j := range idx {
			out[i] = keys[j]
		}
		keys = out
		if MapOrderHook != nil {
			perm := MapOrderHook(len(keys))
			if len(perm) == len(keys) {
				out2 := make([]K, len(keys))
				for i, j := range perm {
					out2[i] = keys[j]
				}
				keys = out2
			}
		}
	}
	return keys
}

func keyString(k any) string {
	switch v := k.(type) {
	case string:
		return v
	case uint64:
		return fmt.Sprintf("%020d", v)
	case int:
		return fmt.Sprintf("%020d", v)
	case [16]byte:
		return string(v[:])
	}
	return fmt.Sprintf("%v", k)
}

func sortIdx(idx []int, strs []string) {
	// insertion sort for tiny inputs, else simple merge via sort.Slice semantics
	for i := 1; i < len(idx); i++ {
		for j := i; j > 0 && strs[idx[j]] < strs[idx[j-1]]; j-- {
			idx[j], idx[j-1] = idx[j-1], idx[j]
		}
	}
}
