//go:build verif

// Package vctx replaces "context" in rewritten sources: deadlines use virtual
// timers under the controlled scheduler.
package vctx

import (
	"context"
	"time"

	"github.com/postalsys/muti-metroo/internal/vmc/sched"
	"github.com/postalsys/muti-metroo/internal/vmc/vtime"
)

type (
	Context         = context.Context
	CancelFunc      = context.CancelFunc
	CancelCauseFunc = context.CancelCauseFunc
)

var (
	Canceled         = context.Canceled
	DeadlineExceeded = context.DeadlineExceeded
)

func Background() Context                                  { return context.Background() }
func TODO() Context                                        { return context.TODO() }
func WithValue(p Context, k, v any) Context                { return context.WithValue(p, k, v) }
func Cause(c Context) error                                { return context.Cause(c) }
func WithCancelCause(p Context) (Context, CancelCauseFunc) { return context.WithCancelCause(p) }

func WithCancel(p Context) (Context, CancelFunc) {
	ctx, cancel := context.WithCancel(p)
	if !sched.Active() {
		return ctx, cancel
	}
	return ctx, func() { sched.Point("ctx.cancel"); cancel() }
}

type timeoutCtx struct {
	context.Context
	deadline time.Time
}

func (c *timeoutCtx) Err() error {
	if c.Context.Err() == nil {
		return nil
	}
	if context.Cause(c.Context) == context.DeadlineExceeded {
		return context.DeadlineExceeded
	}
	return c.Context.Err()
}
func (c *timeoutCtx) Deadline() (time.Time, bool) { return c.deadline, true }

func WithTimeout(p Context, d time.Duration) (Context, CancelFunc) {
	if !sched.Active() {
		return context.WithTimeout(p, d)
	}
	ctx, cancel := context.WithCancelCause(p)
	t := vtime.AfterFunc(d, func() { cancel(context.DeadlineExceeded) })
	return &timeoutCtx{ctx, vtime.Now().Add(d)}, func() { sched.Point("ctx.cancel"); t.Stop(); cancel(context.Canceled) }
}

func WithDeadline(p Context, t time.Time) (Context, CancelFunc) {
	if !sched.Active() {
		return context.WithDeadline(p, t)
	}
	return WithTimeout(p, vtime.Until(t))
}
