//go:build verif

// Package vatomic replaces "sync/atomic" in rewritten sources: a scheduling
// point precedes every atomic operation.
package vatomic

import (
	"sync/atomic"

	"github.com/postalsys/muti-metroo/internal/vmc/sched"
)

func pt(op string) {
	if sched.Active() {
		sched.Point(op)
	}
}

type Int32 struct{ v atomic.Int32 }

func (a *Int32) Load() int32           { pt("atomic.Load"); return a.v.Load() }
func (a *Int32) Store(x int32)         { pt("atomic.Store"); a.v.Store(x) }
func (a *Int32) Add(d int32) int32     { pt("atomic.Add"); return a.v.Add(d) }
func (a *Int32) Swap(x int32) int32    { pt("atomic.Swap"); return a.v.Swap(x) }
func (a *Int32) CompareAndSwap(o, n int32) bool {
	pt("atomic.CAS")
	return a.v.CompareAndSwap(o, n)
}

type Int64 struct{ v atomic.Int64 }

func (a *Int64) Load() int64           { pt("atomic.Load"); return a.v.Load() }
func (a *Int64) Store(x int64)         { pt("atomic.Store"); a.v.Store(x) }
func (a *Int64) Add(d int64) int64     { pt("atomic.Add"); return a.v.Add(d) }
func (a *Int64) Swap(x int64) int64    { pt("atomic.Swap"); return a.v.Swap(x) }
func (a *Int64) CompareAndSwap(o, n int64) bool {
	pt("atomic.CAS")
	return a.v.CompareAndSwap(o, n)
}

type Uint32 struct{ v atomic.Uint32 }

func (a *Uint32) Load() uint32          { pt("atomic.Load"); return a.v.Load() }
func (a *Uint32) Store(x uint32)        { pt("atomic.Store"); a.v.Store(x) }
func (a *Uint32) Add(d uint32) uint32   { pt("atomic.Add"); return a.v.Add(d) }
func (a *Uint32) Swap(x uint32) uint32  { pt("atomic.Swap"); return a.v.Swap(x) }
func (a *Uint32) CompareAndSwap(o, n uint32) bool {
	pt("atomic.CAS")
	return a.v.CompareAndSwap(o, n)
}

type Uint64 struct{ v atomic.Uint64 }

func (a *Uint64) Load() uint64          { pt("atomic.Load"); return a.v.Load() }
func (a *Uint64) Store(x uint64)        { pt("atomic.Store"); a.v.Store(x) }
func (a *Uint64) Add(d uint64) uint64   { pt("atomic.Add"); return a.v.Add(d) }
func (a *Uint64) Swap(x uint64) uint64  { pt("atomic.Swap"); return a.v.Swap(x) }
func (a *Uint64) CompareAndSwap(o, n uint64) bool {
	pt("atomic.CAS")
	return a.v.CompareAndSwap(o, n)
}

type Bool struct{ v atomic.Bool }

func (a *Bool) Load() bool         { pt("atomic.Load"); return a.v.Load() }
func (a *Bool) Store(x bool)       { pt("atomic.Store"); a.v.Store(x) }
func (a *Bool) Swap(x bool) bool   { pt("atomic.Swap"); return a.v.Swap(x) }
func (a *Bool) CompareAndSwap(o, n bool) bool {
	pt("atomic.CAS")
	return a.v.CompareAndSwap(o, n)
}

type Value struct{ v atomic.Value }

func (a *Value) Load() any          { pt("atomic.Load"); return a.v.Load() }
func (a *Value) Store(x any)        { pt("atomic.Store"); a.v.Store(x) }
func (a *Value) Swap(x any) any     { pt("atomic.Swap"); return a.v.Swap(x) }
func (a *Value) CompareAndSwap(o, n any) bool {
	pt("atomic.CAS")
	return a.v.CompareAndSwap(o, n)
}

type Pointer[T any] struct{ v atomic.Pointer[T] }

func (a *Pointer[T]) Load() *T         { pt("atomic.Load"); return a.v.Load() }
func (a *Pointer[T]) Store(x *T)       { pt("atomic.Store"); a.v.Store(x) }
func (a *Pointer[T]) Swap(x *T) *T     { pt("atomic.Swap"); return a.v.Swap(x) }
func (a *Pointer[T]) CompareAndSwap(o, n *T) bool {
	pt("atomic.CAS")
	return a.v.CompareAndSwap(o, n)
}

func AddInt32(p *int32, d int32) int32    { pt("atomic.Add"); return atomic.AddInt32(p, d) }
func AddInt64(p *int64, d int64) int64    { pt("atomic.Add"); return atomic.AddInt64(p, d) }
func AddUint32(p *uint32, d uint32) uint32 { pt("atomic.Add"); return atomic.AddUint32(p, d) }
func AddUint64(p *uint64, d uint64) uint64 { pt("atomic.Add"); return atomic.AddUint64(p, d) }
func LoadInt32(p *int32) int32            { pt("atomic.Load"); return atomic.LoadInt32(p) }
func LoadInt64(p *int64) int64            { pt("atomic.Load"); return atomic.LoadInt64(p) }
func LoadUint32(p *uint32) uint32         { pt("atomic.Load"); return atomic.LoadUint32(p) }
func LoadUint64(p *uint64) uint64         { pt("atomic.Load"); return atomic.LoadUint64(p) }
func StoreInt32(p *int32, v int32)        { pt("atomic.Store"); atomic.StoreInt32(p, v) }
func StoreInt64(p *int64, v int64)        { pt("atomic.Store"); atomic.StoreInt64(p, v) }
func StoreUint32(p *uint32, v uint32)     { pt("atomic.Store"); atomic.StoreUint32(p, v) }
func StoreUint64(p *uint64, v uint64)     { pt("atomic.Store"); atomic.StoreUint64(p, v) }
func CompareAndSwapInt32(p *int32, o, n int32) bool {
	pt("atomic.CAS")
	return atomic.CompareAndSwapInt32(p, o, n)
}
func CompareAndSwapInt64(p *int64, o, n int64) bool {
	pt("atomic.CAS")
	return atomic.CompareAndSwapInt64(p, o, n)
}
func CompareAndSwapUint64(p *uint64, o, n uint64) bool {
	pt("atomic.CAS")
	return atomic.CompareAndSwapUint64(p, o, n)
}

// Peek reads without a scheduling point (harness observers).
func (a *Int32) Peek() int32 { return a.v.Load() }

// Peek reads without a scheduling point (harness observers).
func (a *Int64) Peek() int64 { return a.v.Load() }

// Peek reads without a scheduling point (harness observers).
func (a *Uint32) Peek() uint32 { return a.v.Load() }

// Peek reads without a scheduling point (harness observers).
func (a *Uint64) Peek() uint64 { return a.v.Load() }

// Peek reads without a scheduling point (harness observers).
func (a *Bool) Peek() bool { return a.v.Load() }

// Peek reads without a scheduling point (harness observers).
func (a *Value) Peek() any { return a.v.Load() }
