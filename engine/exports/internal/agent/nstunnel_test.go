//go:build verif

package agent

// Scripted tunnel endpoints and in-memory targets for the data-plane checks (C16, C17, C04,
// C07, C03, C19, C20). A scripted endpoint is a netsim node whose inbound queue is consumed by
// the harness instead of its own processFrame: the harness plays an honest (or adversarial)
// ingress, building STREAM_OPEN / DATA / CLOSE / RESET frames with the real encoders and the
// real crypto package, and the real transit and exit agents do the rest.

import (
	"bytes"
	"fmt"
	"net"
	"runtime"
	"strconv"
	"sync"
	"time"

	"github.com/postalsys/muti-metroo/internal/crypto"
	"github.com/postalsys/muti-metroo/internal/identity"
	"github.com/postalsys/muti-metroo/internal/protocol"
	"github.com/postalsys/muti-metroo/internal/vmc/vnet"
)

// nsWait spins (yielding) until cond holds; false after a generous timeout. Used only as a
// barrier for asynchronous tails whose completion is count-based; never as an oracle.
func nsWait(cond func() bool) bool {
	deadline := time.Now().Add(20 * time.Second)
	for i := 0; ; i++ {
		if cond() {
			return true
		}
		if i < 200 {
			runtime.Gosched()
		} else {
			time.Sleep(50 * time.Microsecond)
		}
		if i%1000 == 999 && time.Now().After(deadline) {
			return false
		}
	}
}

// nsTarget is a harness-owned destination reachable through the vnet dial seam.
type nsTarget struct {
	Addr  string
	mu    sync.Mutex
	conns []*vnet.Conn // target-side ends, one per accepted dial
}

func nsNewTarget(addr string) *nsTarget {
	t := &nsTarget{Addr: addr}
	host, portStr, _ := net.SplitHostPort(addr)
	port, _ := strconv.Atoi(portStr)
	vnet.Register(addr, func(network, a string) (net.Conn, error) {
		remote := &net.TCPAddr{IP: net.ParseIP(host), Port: port}
		local := &net.TCPAddr{IP: net.IPv4(192, 0, 2, 1), Port: 40000 + len(t.conns)}
		x, y := vnet.Pipe(local, remote)
		t.mu.Lock()
		t.conns = append(t.conns, y)
		t.mu.Unlock()
		return x, nil
	})
	return t
}

func (t *nsTarget) close() { vnet.Unregister(t.Addr) }

func (t *nsTarget) nconns() int {
	t.mu.Lock()
	defer t.mu.Unlock()
	return len(t.conns)
}

func (t *nsTarget) conn(i int) *vnet.Conn {
	t.mu.Lock()
	defer t.mu.Unlock()
	if i >= len(t.conns) {
		return nil
	}
	return t.conns[i]
}

// nsTunnel is the ingress end of one scripted TCP / forward tunnel.
type nsTunnel struct {
	net      *nsNet
	ep, via  int
	StreamID uint64
	ReqID    uint64
	priv     [32]byte
	pub      [32]byte
	Key      *crypto.SessionKey
	Acked    bool
	ErrCode  uint16
	ErrMsg   string
	Answered bool
	Recv     []byte // plaintext received from the far end, in order
	BadData  int    // data frames that failed to decrypt under this tunnel's key
	FinSeen  bool
	Closed   bool
	Reset    bool
	Frames   int // frames received for this stream id
}

// nsEndpoint consumes the inbound queues of a scripted node and dispatches frames to its
// tunnels by stream id (an endpoint has one connection per neighbour; ids are per connection).
type nsEndpoint struct {
	net     *nsNet
	node    int
	tunnels map[[2]uint64]*nsTunnel // (via, streamID)
	Stray   []string                // frames that match no tunnel
}

func (n *nsNet) endpoint(node int) *nsEndpoint {
	return &nsEndpoint{net: n, node: node, tunnels: map[[2]uint64]*nsTunnel{}}
}

// openTCP sends a STREAM_OPEN for host:port along path (the agents after `via`).
func (e *nsEndpoint) open(via int, streamID, reqID uint64, remaining []identity.AgentID, addrType uint8, addr []byte, port uint16) *nsTunnel {
	t := &nsTunnel{net: e.net, ep: e.node, via: via, StreamID: streamID, ReqID: reqID}
	priv, pub, err := crypto.GenerateEphemeralKeypair()
	if err != nil {
		panic(err)
	}
	t.priv, t.pub = priv, pub
	e.tunnels[[2]uint64{uint64(via), streamID}] = t
	open := &protocol.StreamOpen{RequestID: reqID, AddressType: addrType, Address: addr, Port: port, RemainingPath: remaining, EphemeralPubKey: pub}
	f := &protocol.Frame{Type: protocol.FrameStreamOpen, StreamID: streamID, Payload: open.Encode()}
	e.send(via, f)
	return t
}

func (e *nsEndpoint) openIP(via int, streamID, reqID uint64, remaining []identity.AgentID, ip net.IP, port uint16) *nsTunnel {
	if ip4 := ip.To4(); ip4 != nil {
		return e.open(via, streamID, reqID, remaining, protocol.AddrTypeIPv4, ip4, port)
	}
	return e.open(via, streamID, reqID, remaining, protocol.AddrTypeIPv6, ip.To16(), port)
}

func (e *nsEndpoint) openDomain(via int, streamID, reqID uint64, remaining []identity.AgentID, name string, port uint16) *nsTunnel {
	addr := append([]byte{byte(len(name))}, []byte(name)...)
	return e.open(via, streamID, reqID, remaining, protocol.AddrTypeDomain, addr, port)
}

func (e *nsEndpoint) send(via int, f *protocol.Frame) {
	b, err := f.Encode()
	if err != nil {
		panic(err)
	}
	e.net.logSent(e.node, via, b)
	if _, err := e.net.inject(e.node, via, b); err != nil {
		panic(err)
	}
}

func (t *nsTunnel) sendData(e *nsEndpoint, plain []byte, flags uint8) {
	var payload []byte
	if len(plain) > 0 {
		ct, err := t.Key.Encrypt(plain)
		if err != nil {
			panic(err)
		}
		payload = ct
	}
	e.send(t.via, &protocol.Frame{Type: protocol.FrameStreamData, StreamID: t.StreamID, Flags: flags, Payload: payload})
}

func (t *nsTunnel) sendClose(e *nsEndpoint) {
	e.send(t.via, &protocol.Frame{Type: protocol.FrameStreamClose, StreamID: t.StreamID})
}

func (t *nsTunnel) sendReset(e *nsEndpoint) {
	rs := &protocol.StreamReset{ErrorCode: protocol.ErrGeneralFailure}
	e.send(t.via, &protocol.Frame{Type: protocol.FrameStreamReset, StreamID: t.StreamID, Payload: rs.Encode()})
}

// pump consumes everything queued towards the endpoint.
func (e *nsEndpoint) pump() {
	for _, k := range e.net.pending() {
		if k[1] != e.node {
			continue
		}
		for _, b := range e.net.takeAll(k) {
			e.handle(k[0], b)
		}
	}
}

func (e *nsEndpoint) handle(from int, b []byte) {
	f, err := protocol.Decode(b)
	if err != nil {
		e.Stray = append(e.Stray, "undecodable")
		return
	}
	switch f.Type {
	case protocol.FrameStreamOpenAck, protocol.FrameStreamOpenErr, protocol.FrameStreamData, protocol.FrameStreamClose, protocol.FrameStreamReset:
	default:
		return // routing chatter etc.
	}
	t := e.tunnels[[2]uint64{uint64(from), f.StreamID}]
	if t == nil {
		e.Stray = append(e.Stray, fmt.Sprintf("type=%#x stream=%d from=n%d", f.Type, f.StreamID, from))
		return
	}
	t.Frames++
	switch f.Type {
	case protocol.FrameStreamOpenAck:
		ack, err := protocol.DecodeStreamOpenAck(f.Payload)
		if err != nil {
			e.Stray = append(e.Stray, "bad ack")
			return
		}
		t.Answered, t.Acked = true, true
		shared, err := crypto.ComputeECDH(t.priv, ack.EphemeralPubKey)
		if err != nil {
			t.ErrMsg = "ecdh: " + err.Error()
			t.Acked = false
			return
		}
		t.Key = crypto.DeriveSessionKey(shared, t.ReqID, t.pub, ack.EphemeralPubKey, true)
	case protocol.FrameStreamOpenErr:
		er, err := protocol.DecodeStreamOpenErr(f.Payload)
		t.Answered = true
		if err == nil {
			t.ErrCode, t.ErrMsg = er.ErrorCode, er.Message
		}
	case protocol.FrameStreamData:
		if len(f.Payload) > 0 {
			if t.Key == nil {
				t.BadData++
			} else if pt, err := t.Key.Decrypt(f.Payload); err != nil {
				t.BadData++
			} else {
				t.Recv = append(t.Recv, pt...)
			}
		}
		if f.Flags&protocol.FlagFinWrite != 0 {
			t.FinSeen = true
		}
	case protocol.FrameStreamClose:
		t.Closed = true
	case protocol.FrameStreamReset:
		t.Reset = true
	}
}

// settle delivers frames between real agents until every queue is empty, pumping the given
// scripted endpoints. Scripted nodes never process frames themselves.
func (n *nsNet) settle(eps ...*nsEndpoint) {
	scripted := map[int]bool{}
	for _, e := range eps {
		scripted[e.node] = true
	}
	for rounds := 0; rounds < 100000; rounds++ {
		progressed := false
		for _, k := range n.pending() {
			if scripted[k[1]] {
				continue
			}
			n.deliver(k[0], k[1])
			progressed = true
			break
		}
		for _, e := range eps {
			e.pump()
		}
		if !progressed {
			return
		}
	}
	panic("netsim: settle did not terminate")
}

// countSent counts frames written by node `from` that satisfy pred.
func (n *nsNet) countSent(from int, pred func(f *protocol.Frame) bool) int {
	c := 0
	for _, s := range n.sentSnapshot() {
		if s.From != from {
			continue
		}
		f, err := protocol.Decode(s.Bytes)
		if err == nil && pred(f) {
			c++
		}
	}
	return c
}

// sentFrames returns a snapshot length of the sent log (frames are appended by agent
// goroutines too, so reads go through the sink's order; harness reads after barriers).
func (n *nsNet) sentLen() int { return len(n.sentSnapshot()) }

var _ = bytes.Equal
