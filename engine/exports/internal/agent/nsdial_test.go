//go:build verif

package agent

// Real-ingress helpers for the data-plane checks (C03, C04, C07): the ingress side is the real
// agent code (DialContext, DialForward, UploadFile, ...) running in its own goroutine while the
// driver keeps delivering frames; every wait is a completion or count barrier.

import (
	"fmt"
	"io"
	"net"
	"runtime"
	"sync"
	"time"

	"github.com/postalsys/muti-metroo/internal/protocol"
)

// nsCall runs f in a goroutine and keeps the mesh moving until it returns. Frames are delivered by
// a separate pump goroutine: a delivery can block inside the code under test (e.g. a full stream
// read buffer whose reader has stopped after an error), and that must not hang the driver. If the
// pump is still stuck when f has returned, the world is marked dirty (the caller rebuilds it).
func nsCall[T any](nt *nsNet, f func() (T, error)) (T, error, bool) {
	var (
		mu      sync.Mutex
		done    bool
		v       T
		err     error
		stop    bool
		pumping bool
	)
	go func() {
		x, e := f()
		mu.Lock()
		v, err, done = x, e, true
		mu.Unlock()
	}()
	pumpDone := make(chan struct{})
	go func() {
		defer close(pumpDone)
		for {
			mu.Lock()
			s := stop
			mu.Unlock()
			if s {
				return
			}
			mu.Lock()
			pumping = true
			mu.Unlock()
			n := nt.run(nil, 64)
			mu.Lock()
			pumping = false
			mu.Unlock()
			if n == 0 {
				runtime.Gosched()
			}
		}
	}()
	ok := nsWait(func() bool {
		mu.Lock()
		defer mu.Unlock()
		return done
	})
	mu.Lock()
	stop = true
	mu.Unlock()
	// give the pump a bounded chance to finish its current delivery
	select {
	case <-pumpDone:
	case <-time.After(2 * time.Second):
		nt.dirty = true
	}
	mu.Lock()
	defer mu.Unlock()
	_ = pumping
	return v, err, ok
}

// nsPattern returns n bytes of a position-dependent pattern tagged with tag (so that
// misordering, duplication or cross-talk is visible).
func nsPattern(tag byte, n int) []byte {
	b := make([]byte, n)
	for i := range b {
		b[i] = byte((i*7+int(tag)*13)%251) ^ tag
	}
	return b
}

// nsMarked returns n bytes consisting of a repeated unique ASCII marker.
func nsMarked(marker string, n int) []byte {
	b := make([]byte, 0, n+len(marker))
	for len(b) < n {
		b = append(b, marker...)
	}
	return b[:n]
}

// nsReadN reads exactly n bytes from c in a goroutine while the mesh is kept moving.
func nsReadN(nt *nsNet, c io.Reader, n int) ([]byte, error, bool) {
	return nsCall(nt, func() ([]byte, error) {
		buf := make([]byte, n)
		_, err := io.ReadFull(c, buf)
		return buf, err
	})
}

// nsReadChunks reads exactly n bytes from c using a consumer buffer of k bytes per Read call.
func nsReadChunks(nt *nsNet, c io.Reader, n, k int) ([]byte, error, bool) {
	return nsCall(nt, func() ([]byte, error) {
		out := make([]byte, 0, n)
		buf := make([]byte, k)
		for len(out) < n {
			want := k
			if n-len(out) < want {
				want = n - len(out)
			}
			m, err := c.Read(buf[:want])
			out = append(out, buf[:m]...)
			if err != nil {
				return out, err
			}
		}
		return out, nil
	})
}

// nsFrameStats inspects every frame written so far: the largest payload, and the frames of a type.
func (n *nsNet) maxPayload() (int, string) {
	max := 0
	where := ""
	for _, s := range n.sentSnapshot() {
		if len(s.Bytes) >= protocol.HeaderSize {
			pl := len(s.Bytes) - protocol.HeaderSize
			if pl > max {
				max = pl
				where = fmt.Sprintf("n%d->n%d type %#x", s.From, s.To, s.Bytes[0])
			}
		}
	}
	return max, where
}

var _ = net.IPv4
