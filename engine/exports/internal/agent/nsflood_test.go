//go:build verif

package agent

// Shared BFS driver for the flooding properties (C11, C12, C13, C15): explicit-state
// search over event histories of a netsim mesh. Every transition rebuilds the real agents
// and replays the history (real objects cannot be cloned).

import (
	"fmt"
	"strconv"
	"strings"

	"github.com/postalsys/muti-metroo/internal/config"
	"github.com/postalsys/muti-metroo/internal/protocol"
	"github.com/postalsys/muti-metroo/internal/vmc"
)

type nsFloodScenario struct {
	N         int        `json:"n"`
	Edges     [][2]int   `json:"edges"`
	Exits     []int      `json:"exits"`      // agents configured with exit/domain/forward routes
	Announces int        `json:"announces"`  // announcements per agent
	MaxDup    int        `json:"max_dup"`    // duplicated deliveries allowed in a history
	MaxExpire int        `json:"max_expire"` // seen-cache expiries allowed in a history
	MaxHops   int        `json:"max_hops,omitempty"`
	LateEdges [][2]int   `json:"late_edges,omitempty"` // links that come up during the history (event c:<k>) -> full-table replay
	History   []string   `json:"history,omitempty"`
}

func (sc nsFloodScenario) String() string {
	s := fmt.Sprintf("n=%d edges=%v exits=%v ann=%d dup=%d exp=%d", sc.N, sc.Edges, sc.Exits, sc.Announces, sc.MaxDup, sc.MaxExpire)
	if len(sc.LateEdges) > 0 {
		s += fmt.Sprintf(" late=%v", sc.LateEdges)
	}
	return s
}

// nsFloodBuild builds the mesh of the scenario (links connected in edge order) and replays hist.
func nsFloodBuild(sc nsFloodScenario, hist []string) (*nsNet, error) {
	isExit := map[int]bool{}
	for _, e := range sc.Exits {
		isExit[e] = true
	}
	net, err := nsNew(sc.N, func(i int, cfg *config.Config) {
		if isExit[i] {
			cfg.Exit.Enabled = true
			cfg.Exit.Routes = []string{"10.0.0.0/8", fmt.Sprintf("10.%d.0.0/16", i+1)}
			cfg.Exit.DomainRoutes = []string{"*.ex.test", fmt.Sprintf("h%d.ex.test", i)}
			cfg.Forward.Endpoints = []config.ForwardEndpoint{{Key: "web", Target: "127.0.0.1:9"}}
		}
		if sc.MaxHops > 0 {
			cfg.Routing.MaxHops = sc.MaxHops
		}
	})
	if err != nil {
		return nil, err
	}
	for _, e := range sc.Edges {
		net.connect(e[0], e[1])
	}
	for _, ev := range hist {
		if ev[0] == 'c' {
			k, _ := strconv.Atoi(ev[2:])
			net.connect(sc.LateEdges[k][0], sc.LateEdges[k][1])
			continue
		}
		if err := nsFloodApply(net, ev); err != nil {
			net.close()
			return nil, fmt.Errorf("event %s: %w", ev, err)
		}
	}
	return net, nil
}

func nsFloodApply(net *nsNet, ev string) error {
	p := strings.Split(ev, ":")
	at := func(i int) int { v, _ := strconv.Atoi(p[i]); return v }
	switch p[0] {
	case "a":
		net.agents[at(1)].flooder.AnnounceLocalRoutes()
	case "d":
		_, err := net.deliver(at(1), at(2))
		return err
	case "u":
		return net.redeliver(at(1), at(2), at(3))
	case "e":
		net.expire(at(1))
	default:
		return fmt.Errorf("unknown event")
	}
	return nil
}

// nsFloodEnabled lists the events enabled after hist.
func nsFloodEnabled(sc nsFloodScenario, net *nsNet, hist []string) []string {
	ann := make([]int, sc.N)
	dups, exps := 0, 0
	for _, ev := range hist {
		switch ev[0] {
		case 'a':
			i, _ := strconv.Atoi(ev[2:])
			ann[i]++
		case 'u':
			dups++
		case 'e':
			exps++
		}
	}
	var evs []string
	for _, k := range net.pending() {
		evs = append(evs, fmt.Sprintf("d:%d:%d", k[0], k[1]))
	}
	for i := 0; i < sc.N; i++ {
		if ann[i] < sc.Announces {
			evs = append(evs, fmt.Sprintf("a:%d", i))
		}
	}
	if dups < sc.MaxDup {
		for k, d := range net.done {
			for i := range d {
				evs = append(evs, fmt.Sprintf("u:%d:%d:%d", k[0], k[1], i))
			}
		}
		// map order: sort the duplicate events
		sortStrings(evs)
	}
	if exps < sc.MaxExpire {
		for i := 0; i < sc.N; i++ {
			evs = append(evs, fmt.Sprintf("e:%d", i))
		}
	}
	for k, e := range sc.LateEdges {
		if !net.linked(e[0], e[1]) {
			evs = append(evs, fmt.Sprintf("c:%d", k))
		}
	}
	return evs
}

func sortStrings(s []string) {
	for i := 1; i < len(s); i++ {
		for j := i; j > 0 && s[j] < s[j-1]; j-- {
			s[j], s[j-1] = s[j-1], s[j]
		}
	}
}

// allAnnounced reports whether every agent has made all its announcements in hist.
func nsAllAnnounced(sc nsFloodScenario, hist []string) bool {
	c := 0
	for _, ev := range hist {
		if ev[0] == 'a' {
			c++
		}
	}
	return c == sc.N*sc.Announces
}

// nsAdvInfo decodes a ROUTE_ADVERTISE frame (nil if another type).
func nsAdvInfo(b []byte) *protocol.RouteAdvertise {
	f, err := protocol.Decode(b)
	if err != nil || f.Type != protocol.FrameRouteAdvertise {
		return nil
	}
	adv, err := protocol.DecodeRouteAdvertise(f.Payload)
	if err != nil {
		return nil
	}
	return adv
}

// nsFloodBFS runs the explicit-state search for one scenario. check is called once per
// transition with the reached mesh and the history (last element = the event just applied).
func nsFloodBFS(r *vmc.Result, sc nsFloodScenario, maxDepth int, check func(net *nsNet, hist []string)) vmc.BFSStats {
	return vmc.BFS(r, func(hist []string) (string, []string) {
		net, err := nsFloodBuild(sc, hist)
		if err != nil {
			r.HarnessError("netsim build failed for %s hist %v: %v", sc, hist, err)
			return "ERR", nil
		}
		defer net.close()
		check(net, hist)
		// dup/expire budgets and announcement counts are part of the state
		ann, dup, exp := 0, 0, 0
		for _, ev := range hist {
			switch ev[0] {
			case 'a':
				ann++
			case 'u':
				dup++
			case 'e':
				exp++
			}
		}
		annPer := make([]int, sc.N)
		for _, ev := range hist {
			if ev[0] == 'a' {
				i, _ := strconv.Atoi(ev[2:])
				annPer[i]++
			}
		}
		key := fmt.Sprintf("%v|%d|%d|", annPer, dup, exp) + net.canon()
		if dup < sc.MaxDup {
			// delivered-frame history matters only while duplicates are still allowed
			for _, k := range sortedLinkKeys(net.done) {
				key += fmt.Sprintf("done%d>%d:%d;", k[0], k[1], len(net.done[k]))
				for _, b := range net.done[k] {
					key += fmt.Sprintf("%x;", b)
				}
			}
		}
		return key, nsFloodEnabled(sc, net, hist)
	}, vmc.BFSOpts{MaxDepth: maxDepth, Workers: 16})
}

func sortedLinkKeys(m map[[2]int][][]byte) [][2]int {
	var out [][2]int
	for k := range m {
		out = append(out, k)
	}
	for i := 1; i < len(out); i++ {
		for j := i; j > 0 && (out[j][0] < out[j-1][0] || (out[j][0] == out[j-1][0] && out[j][1] < out[j-1][1])); j-- {
			out[j], out[j-1] = out[j-1], out[j]
		}
	}
	return out
}
