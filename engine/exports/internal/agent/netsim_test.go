//go:build verif

package agent

// netsim -- engine E2 of the /verif framework: an event-level mesh of REAL agents.
//
// N real *Agent values built by agent.New (explicit id and private key, no disk, no
// listeners, never Start()ed unless a harness does so). A link a<->b is a pair of seam
// peer.Connection objects registered in the real peer.Manager of both sides; their frame
// writers append the ENCODED frame bytes to a per-directed-link FIFO. One event delivers
// the head frame of one FIFO: protocol.Decode + the receiving agent's real processFrame,
// synchronously. Delivery order, duplication, connects, disconnects, announcements and
// cache expiry are therefore explicit events that an explorer enumerates.

import (
	"encoding/hex"
	"fmt"
	"sort"
	"strings"
	"sync"
	"time"

	"github.com/postalsys/muti-metroo/internal/config"
	"github.com/postalsys/muti-metroo/internal/identity"
	"github.com/postalsys/muti-metroo/internal/peer"
	"github.com/postalsys/muti-metroo/internal/protocol"
)

type nsFrame struct {
	From, To int
	Bytes    []byte
}

type nsNet struct {
	mu     sync.Mutex // guards q, done, sent (sinks are written by agent goroutines too)
	dirty  bool       // a delivery got stuck inside the code under test: rebuild the world
	n      int
	agents []*Agent
	ids    []identity.AgentID
	q      map[[2]int][][]byte
	done   map[[2]int][][]byte // frames already delivered per directed link (for duplication)
	conn   map[[2]int]*peer.Connection
	sent   []nsFrame // every frame ever written, in write order
	// onDeliver, if set, observes every delivered frame after the handler ran.
	onDeliver func(from, to int, f *protocol.Frame)
	// filter, if set, may rewrite or drop (return nil) a frame when it is written.
	filter func(from, to int, frame []byte) []byte
}

type nsSink struct {
	net      *nsNet
	from, to int
}

func (s *nsSink) Write(p []byte) (int, error) {
	b := append([]byte(nil), p...)
	if s.net.filter != nil {
		b = s.net.filter(s.from, s.to, b)
		if b == nil {
			return len(p), nil
		}
	}
	k := [2]int{s.from, s.to}
	s.net.mu.Lock()
	s.net.q[k] = append(s.net.q[k], b)
	s.net.sent = append(s.net.sent, nsFrame{s.from, s.to, b})
	s.net.mu.Unlock()
	return len(p), nil
}

func nsID(i int) identity.AgentID {
	var id identity.AgentID
	for j := range id {
		id[j] = byte(0x10*(i+1) + j%3)
	}
	id[0] = byte(0xA1 + i)
	return id
}

func nsPrivKeyHex(i int) string {
	var k [32]byte
	for j := range k {
		k[j] = byte(i*31 + j + 7)
	}
	k[0] &= 248
	k[31] &= 127
	k[31] |= 64
	return hex.EncodeToString(k[:])
}

// nsNew builds n real agents. mod may adjust each agent's configuration.
func nsNew(n int, mod func(i int, cfg *config.Config)) (*nsNet, error) {
	net := &nsNet{n: n, q: map[[2]int][][]byte{}, done: map[[2]int][][]byte{}, conn: map[[2]int]*peer.Connection{}}
	for i := 0; i < n; i++ {
		cfg := config.Default()
		id := nsID(i)
		cfg.Agent.ID = id.String()
		cfg.Agent.DataDir = ""
		cfg.Agent.PrivateKey = nsPrivKeyHex(i)
		cfg.Agent.LogLevel = "error"
		cfg.Agent.DisplayName = fmt.Sprintf("n%d", i)
		cfg.UDP.Enabled = false  // a harness that needs the UDP/ICMP exit handlers enables them in mod
		cfg.ICMP.Enabled = false
		if mod != nil {
			mod(i, cfg)
		}
		a, err := New(cfg)
		if err != nil {
			net.close()
			return nil, fmt.Errorf("agent %d: %w", i, err)
		}
		if a.id != id {
			net.close()
			return nil, fmt.Errorf("agent %d: id mismatch %s", i, a.id)
		}
		a.peerMgr.SetFrameCallback(a.processFrame)
		if a.exitHandler != nil {
			a.exitHandler.Start() // what agent.Start does; no goroutines
		}
		if a.forwardHandler != nil {
			a.forwardHandler.Start()
		}
		net.agents = append(net.agents, a)
		net.ids = append(net.ids, id)
	}
	return net, nil
}

// close releases the background goroutines of the agents (flooder cleanup loops).
func (n *nsNet) close() {
	for _, a := range n.agents {
		if a.flooder != nil {
			a.flooder.Stop()
		}
		if a.peerMgr != nil {
			a.peerMgr.Close()
		}
		if a.udpHandler != nil {
			a.udpHandler.Close()
		}
		if a.icmpHandler != nil {
			a.icmpHandler.Close()
		}
		if a.exitHandler != nil {
			a.exitHandler.Stop()
		}
		if a.forwardHandler != nil {
			a.forwardHandler.Stop()
		}
		if a.shellHandler != nil {
			a.shellHandler.Close()
		}
	}
}

func (n *nsNet) idx(id identity.AgentID) int {
	for i, x := range n.ids {
		if x == id {
			return i
		}
	}
	return -1
}

func (n *nsNet) name(id identity.AgentID) string {
	if i := n.idx(id); i >= 0 {
		return fmt.Sprintf("n%d", i)
	}
	return "?" + id.ShortString()
}

func (n *nsNet) linked(a, b int) bool {
	_, ok := n.conn[[2]int{a, b}]
	return ok
}

// connect registers a link with a as the dialing side (real OnPeerConnected ->
// SendFullTable on both sides).
func (n *nsNet) connect(a, b int) bool {
	if n.linked(a, b) {
		return false
	}
	ca := peer.VerifNewConnection(n.ids[a], n.ids[b], true, &nsSink{n, a, b})
	cb := peer.VerifNewConnection(n.ids[b], n.ids[a], false, &nsSink{n, b, a})
	n.conn[[2]int{a, b}] = ca
	n.conn[[2]int{b, a}] = cb
	okA := n.agents[a].peerMgr.VerifRegister(ca)
	okB := n.agents[b].peerMgr.VerifRegister(cb)
	return okA && okB
}

// disconnect tears the link down through the real disconnect path on both sides;
// frames still in flight are lost.
func (n *nsNet) disconnect(a, b int) {
	ca, cb := n.conn[[2]int{a, b}], n.conn[[2]int{b, a}]
	if ca == nil {
		return
	}
	delete(n.conn, [2]int{a, b})
	delete(n.conn, [2]int{b, a})
	n.mu.Lock()
	delete(n.q, [2]int{a, b})
	delete(n.q, [2]int{b, a})
	n.mu.Unlock()
	n.agents[a].peerMgr.VerifDisconnect(ca, fmt.Errorf("link down"))
	n.agents[b].peerMgr.VerifDisconnect(cb, fmt.Errorf("link down"))
}

// pending returns the directed links with queued frames, sorted.
func (n *nsNet) pending() [][2]int {
	var out [][2]int
	n.mu.Lock()
	for k, v := range n.q {
		if len(v) > 0 {
			out = append(out, k)
		}
	}
	n.mu.Unlock()
	sort.Slice(out, func(i, j int) bool {
		if out[i][0] != out[j][0] {
			return out[i][0] < out[j][0]
		}
		return out[i][1] < out[j][1]
	})
	return out
}

func (n *nsNet) quiescent() bool { return len(n.pending()) == 0 }

// deliver pops the head frame of link from->to and hands it to the receiver's real processFrame.
func (n *nsNet) deliver(from, to int) (*protocol.Frame, error) {
	k := [2]int{from, to}
	n.mu.Lock()
	if len(n.q[k]) == 0 {
		n.mu.Unlock()
		return nil, fmt.Errorf("nothing queued on %d->%d", from, to)
	}
	b := n.q[k][0]
	n.q[k] = n.q[k][1:]
	n.done[k] = append(n.done[k], b)
	n.mu.Unlock()
	return n.inject(from, to, b)
}

// inject hands raw frame bytes to agent `to` as if received from `from`.
func (n *nsNet) inject(from, to int, b []byte) (*protocol.Frame, error) {
	f, err := protocol.Decode(b)
	if err != nil {
		return nil, err
	}
	n.agents[to].processFrame(n.ids[from], f)
	if n.onDeliver != nil {
		n.onDeliver(from, to, f)
	}
	return f, nil
}

// redeliver injects again the i-th frame already delivered on from->to (duplication).
func (n *nsNet) redeliver(from, to, i int) error {
	n.mu.Lock()
	d := n.done[[2]int{from, to}]
	n.mu.Unlock()
	if i >= len(d) {
		return fmt.Errorf("no delivered frame %d on %d->%d", i, from, to)
	}
	_, err := n.inject(from, to, d[i])
	return err
}

// run delivers frames until quiescence, choosing the link by pick (nil = first pending).
// Returns the number of deliveries; stops at max.
func (n *nsNet) run(pick func(k int) int, max int) int {
	cnt := 0
	for cnt < max {
		p := n.pending()
		if len(p) == 0 {
			break
		}
		i := 0
		if pick != nil && len(p) > 1 {
			i = pick(len(p))
		}
		n.deliver(p[i][0], p[i][1])
		cnt++
	}
	return cnt
}

// expire ages agent i's flood caches past the TTL and runs the real cleanup.
func (n *nsNet) expire(i int) {
	a := n.agents[i]
	a.flooder.VerifAge(6 * time.Minute)
	a.flooder.VerifCleanup()
}

func (n *nsNet) pathStr(p []identity.AgentID) string {
	s := make([]string, len(p))
	for i, id := range p {
		s[i] = n.name(id)
	}
	return strings.Join(s, ">")
}

type nsRoute struct {
	Kind    string // cidr | domain | forward | agent
	Key     string
	Origin  identity.AgentID
	NextHop identity.AgentID
	Metric  uint16
	Seq     uint64
	Path    []identity.AgentID
	Age     time.Duration
}

// routes dumps all learned routes of agent i (all four tables), sorted.
func (n *nsNet) routes(i int) []nsRoute {
	a := n.agents[i]
	var out []nsRoute
	now := time.Now()
	for _, r := range a.routeMgr.Table().GetAllRoutes() {
		out = append(out, nsRoute{"cidr", r.Network.String(), r.OriginAgent, r.NextHop, r.Metric, r.Sequence, r.Path, now.Sub(r.LastUpdate)})
	}
	for _, r := range a.routeMgr.DomainTable().GetAllRoutes() {
		out = append(out, nsRoute{"domain", r.Pattern, r.OriginAgent, r.NextHop, r.Metric, r.Sequence, r.Path, now.Sub(r.LastUpdate)})
	}
	for _, r := range a.routeMgr.ForwardTable().GetAllRoutes() {
		out = append(out, nsRoute{"forward", r.Key, r.OriginAgent, r.NextHop, r.Metric, r.Sequence, r.Path, now.Sub(r.LastUpdate)})
	}
	for _, r := range a.routeMgr.AgentTable().GetAllRoutes() {
		out = append(out, nsRoute{"agent", n.name(r.AgentID), r.OriginAgent, r.NextHop, r.Metric, r.Sequence, r.Path, now.Sub(r.LastUpdate)})
	}
	sort.Slice(out, func(x, y int) bool { return n.routeKey(out[x]) < n.routeKey(out[y]) })
	return out
}

func (n *nsNet) routeKey(r nsRoute) string {
	local := ""
	if r.NextHop == (identity.AgentID{}) {
		local = "L"
	}
	return fmt.Sprintf("%s|%s|o=%s|nh=%s%s|m=%d|s=%d|p=%s", r.Kind, r.Key, n.name(r.Origin), n.name(r.NextHop), local, r.Metric, r.Seq, n.pathStr(r.Path))
}

// canon is the canonical state of the whole mesh: per agent the route dump, the
// seen-cache keys and the sequence counter; the link set; and every queued frame.
// Timestamps are deliberately excluded (they only matter through the explicit
// expire/age events, which a harness adds to the key itself if it uses them).
func (n *nsNet) canon() string {
	var sb strings.Builder
	for i := 0; i < n.n; i++ {
		fmt.Fprintf(&sb, "A%d seq=%d\n", i, n.agents[i].routeMgr.GetCurrentSequence())
		for _, r := range n.routes(i) {
			sb.WriteString(" " + n.routeKey(r) + "\n")
		}
		keys := n.agents[i].flooder.VerifSeenKeys()
		ks := make([]string, len(keys))
		for j, k := range keys {
			ks[j] = fmt.Sprintf("%s#%d", n.name(k.OriginAgent), k.Sequence)
		}
		sort.Strings(ks)
		sb.WriteString(" seen=" + strings.Join(ks, ",") + "\n")
	}
	var links []string
	for k := range n.conn {
		links = append(links, fmt.Sprintf("%d-%d", k[0], k[1]))
	}
	sort.Strings(links)
	sb.WriteString("links=" + strings.Join(links, ",") + "\n")
	for _, k := range n.pending() {
		fmt.Fprintf(&sb, "q%d>%d:", k[0], k[1])
		for _, b := range n.q[k] {
			sb.WriteString(hex.EncodeToString(b))
			sb.WriteString(";")
		}
		sb.WriteString("\n")
	}
	return sb.String()
}

// nsGraphs returns all connected simple graphs on n labelled vertices up to
// relabelling that fixes nothing (we keep labelled graphs but drop isomorphic
// duplicates by canonical degree-sequence + adjacency under all permutations).
func nsGraphs(n int) [][][2]int {
	var pairs [][2]int
	for a := 0; a < n; a++ {
		for b := a + 1; b < n; b++ {
			pairs = append(pairs, [2]int{a, b})
		}
	}
	perms := nsPerms(n)
	seen := map[string]bool{}
	var out [][][2]int
	for mask := 0; mask < 1<<len(pairs); mask++ {
		var edges [][2]int
		for i, p := range pairs {
			if mask&(1<<i) != 0 {
				edges = append(edges, p)
			}
		}
		if !nsConnected(n, edges) {
			continue
		}
		best := ""
		for _, pm := range perms {
			var es []string
			for _, e := range edges {
				x, y := pm[e[0]], pm[e[1]]
				if x > y {
					x, y = y, x
				}
				es = append(es, fmt.Sprintf("%d%d", x, y))
			}
			sort.Strings(es)
			s := strings.Join(es, ",")
			if best == "" || s < best {
				best = s
			}
		}
		if seen[best] {
			continue
		}
		seen[best] = true
		out = append(out, edges)
	}
	return out
}

func nsPerms(n int) [][]int {
	var out [][]int
	var rec func(cur []int, used []bool)
	rec = func(cur []int, used []bool) {
		if len(cur) == n {
			out = append(out, append([]int(nil), cur...))
			return
		}
		for i := 0; i < n; i++ {
			if !used[i] {
				used[i] = true
				rec(append(cur, i), used)
				used[i] = false
			}
		}
	}
	rec(nil, make([]bool, n))
	return out
}

func nsConnected(n int, edges [][2]int) bool {
	if n == 0 {
		return true
	}
	adj := make([][]int, n)
	for _, e := range edges {
		adj[e[0]] = append(adj[e[0]], e[1])
		adj[e[1]] = append(adj[e[1]], e[0])
	}
	vis := make([]bool, n)
	st := []int{0}
	vis[0] = true
	c := 1
	for len(st) > 0 {
		x := st[len(st)-1]
		st = st[:len(st)-1]
		for _, y := range adj[x] {
			if !vis[y] {
				vis[y] = true
				c++
				st = append(st, y)
			}
		}
	}
	return c == n
}

// nsDist returns hop distances between all pairs over the current links.
func (n *nsNet) dist() [][]int {
	d := make([][]int, n.n)
	for i := range d {
		d[i] = make([]int, n.n)
		for j := range d[i] {
			d[i][j] = -1
		}
		d[i][i] = 0
		queue := []int{i}
		for len(queue) > 0 {
			x := queue[0]
			queue = queue[1:]
			for y := 0; y < n.n; y++ {
				if n.linked(x, y) && d[i][y] < 0 {
					d[i][y] = d[i][x] + 1
					queue = append(queue, y)
				}
			}
		}
	}
	return d
}

// takeAll removes and returns everything queued on link k.
func (n *nsNet) takeAll(k [2]int) [][]byte {
	n.mu.Lock()
	defer n.mu.Unlock()
	b := n.q[k]
	n.q[k] = nil
	n.done[k] = append(n.done[k], b...)
	return b
}

// sentSnapshot returns a copy of the log of every frame written so far.
func (n *nsNet) sentSnapshot() []nsFrame {
	n.mu.Lock()
	defer n.mu.Unlock()
	return append([]nsFrame(nil), n.sent...)
}

// logSent appends a frame written by a scripted endpoint to the log.
func (n *nsNet) logSent(from, to int, b []byte) {
	n.mu.Lock()
	n.sent = append(n.sent, nsFrame{from, to, b})
	n.mu.Unlock()
}
