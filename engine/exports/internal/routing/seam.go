//go:build verif

package routing

import "time"

// VerifAge makes every stored route (all four tables) d older.
func (m *Manager) VerifAge(d time.Duration) {
	m.table.mu.Lock()
	for _, rs := range m.table.routes {
		for _, r := range rs {
			r.LastUpdate = r.LastUpdate.Add(-d)
		}
	}
	m.table.mu.Unlock()
	m.agentTable.mu.Lock()
	for _, rs := range m.agentTable.routes {
		for _, r := range rs {
			r.LastUpdate = r.LastUpdate.Add(-d)
		}
	}
	m.agentTable.mu.Unlock()
	m.forwardTable.mu.Lock()
	for _, rs := range m.forwardTable.routes {
		for _, r := range rs {
			r.LastUpdate = r.LastUpdate.Add(-d)
		}
	}
	m.forwardTable.mu.Unlock()
	m.domainTable.mu.Lock()
	for _, rm := range m.domainTable.allRouteMaps() {
		for _, rs := range rm {
			for _, r := range rs {
				r.LastUpdate = r.LastUpdate.Add(-d)
			}
		}
	}
	m.domainTable.mu.Unlock()
}
