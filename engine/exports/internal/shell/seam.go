//go:build verif

package shell

// VerifSessionKey returns the raw session key of a shell stream.
func (h *Handler) VerifSessionKey(streamID uint64) ([32]byte, bool) {
	h.mu.RLock()
	defer h.mu.RUnlock()
	ss := h.streams[streamID]
	if ss == nil || ss.sessionKey == nil {
		return [32]byte{}, false
	}
	return ss.sessionKey.Key(), true
}
