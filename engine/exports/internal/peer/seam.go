//go:build verif

package peer

// Seam used by the /verif event-level mesh simulation (engine E2): a Connection
// whose FrameWriter writes into a harness-owned sink, with no goroutines and no
// transport underneath. Registration and disconnection go through the real
// Manager bookkeeping and callbacks.

import (
	"context"
	"fmt"
	"io"
	"net"

	"github.com/postalsys/muti-metroo/internal/identity"
	"github.com/postalsys/muti-metroo/internal/protocol"
	"github.com/postalsys/muti-metroo/internal/transport"
)

type verifPeerConn struct {
	dialer bool
	closed bool
}

func (v *verifPeerConn) OpenStream(ctx context.Context) (transport.Stream, error) {
	return nil, fmt.Errorf("verif seam: no streams")
}
func (v *verifPeerConn) AcceptStream(ctx context.Context) (transport.Stream, error) {
	return nil, fmt.Errorf("verif seam: no streams")
}
func (v *verifPeerConn) Close() error                         { v.closed = true; return nil }
func (v *verifPeerConn) LocalAddr() net.Addr                  { return &net.TCPAddr{IP: net.IPv4(127, 0, 0, 1), Port: 1} }
func (v *verifPeerConn) RemoteAddr() net.Addr                 { return &net.TCPAddr{IP: net.IPv4(127, 0, 0, 1), Port: 2} }
func (v *verifPeerConn) IsDialer() bool                       { return v.dialer }
func (v *verifPeerConn) TransportType() transport.TransportType { return transport.TransportQUIC }

// VerifNewConnection builds a connected Connection to remoteID whose frames are
// written (one Write call per encoded frame) to sink.
func VerifNewConnection(localID, remoteID identity.AgentID, isDialer bool, sink io.Writer) *Connection {
	ctx, cancel := context.WithCancel(context.Background())
	c := &Connection{
		LocalID:     localID,
		RemoteID:    remoteID,
		conn:        &verifPeerConn{dialer: isDialer},
		isDialer:    isDialer,
		streamAlloc: transport.NewStreamIDAllocator(isDialer),
		ctx:         ctx,
		cancel:      cancel,
		closed:      make(chan struct{}),
		ready:       make(chan struct{}),
		writer:      protocol.NewFrameWriter(sink),
	}
	c.state.Store(int32(StateConnected))
	c.updateActivity()
	close(c.ready)
	return c
}

// VerifRegister registers c exactly as registerConnection does (duplicate
// rejection, OnPeerConnected callback) but without starting the read and
// keepalive goroutines: the harness delivers frames itself.
func (m *Manager) VerifRegister(c *Connection) bool {
	m.mu.Lock()
	if _, ok := m.peers[c.RemoteID]; ok {
		m.mu.Unlock()
		c.Close()
		return false
	}
	m.peers[c.RemoteID] = c
	m.mu.Unlock()
	if m.cfg.OnPeerConnected != nil {
		m.cfg.OnPeerConnected(c)
	}
	return true
}

// VerifDisconnect closes c and runs the real disconnect path (as readLoop does on a read error).
func (m *Manager) VerifDisconnect(c *Connection, err error) {
	c.Close()
	m.handleDisconnect(c, err)
}

// VerifRegisterReal calls the real registerConnection (starts goroutines).
func (m *Manager) VerifRegisterReal(c *Connection) { m.registerConnection(c) }

// VerifHandleDisconnect calls the real handleDisconnect without closing.
func (m *Manager) VerifHandleDisconnect(c *Connection, err error) { m.handleDisconnect(c, err) }
