//go:build verif

package flood

import "time"

// VerifAge makes every seen-cache entry d older (event-level "time passes":
// the harness ages state instead of advancing a clock, so no wall-clock value
// ever matters -- TTLs are minutes, real elapsed time is milliseconds).
func (f *Flooder) VerifAge(d time.Duration) {
	f.mu.Lock()
	for _, e := range f.seenCache {
		e.SeenAt = e.SeenAt.Add(-d)
	}
	f.mu.Unlock()
	f.nodeInfoMu.Lock()
	for _, e := range f.nodeInfoSeenCache {
		e.SeenAt = e.SeenAt.Add(-d)
	}
	f.nodeInfoMu.Unlock()
	f.sleepCmdMu.Lock()
	for _, e := range f.sleepCmdSeenCache {
		e.SeenAt = e.SeenAt.Add(-d)
	}
	f.sleepCmdMu.Unlock()
}

// VerifCleanup runs the real cache cleanup once (what cleanupLoop does on a tick).
func (f *Flooder) VerifCleanup() { f.cleanup() }

// VerifSeenKeys dumps the route-advertisement seen cache (origin short id, sequence).
func (f *Flooder) VerifSeenKeys() []AdvertisementKey {
	f.mu.RLock()
	defer f.mu.RUnlock()
	out := make([]AdvertisementKey, 0, len(f.seenCache))
	for k := range f.seenCache {
		out = append(out, k)
	}
	return out
}
