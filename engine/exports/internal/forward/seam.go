//go:build verif

package forward

import "github.com/postalsys/muti-metroo/internal/identity"

// VerifConn describes one tracked forward connection.
type VerifConn struct {
	StreamID uint64
	RemoteID identity.AgentID
}

// VerifSnapshot returns the tracked connections and the connection counter.
func (h *Handler) VerifSnapshot() ([]VerifConn, int64) {
	h.mu.RLock()
	defer h.mu.RUnlock()
	var out []VerifConn
	for id, ac := range h.connections {
		out = append(out, VerifConn{id, ac.RemoteID})
	}
	return out, h.connCount.Load()
}

// VerifSessionKey returns the raw session key of a tracked connection.
func (h *Handler) VerifSessionKey(streamID uint64) ([32]byte, bool) {
	h.mu.RLock()
	defer h.mu.RUnlock()
	ac := h.connections[streamID]
	if ac == nil || ac.sessionKey == nil {
		return [32]byte{}, false
	}
	return ac.sessionKey.Key(), true
}
