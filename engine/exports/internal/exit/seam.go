//go:build verif

package exit

import (
	"net"
	"time"

	"github.com/postalsys/muti-metroo/internal/identity"
)

// VerifConn describes one tracked exit connection.
type VerifConn struct {
	StreamID uint64
	RemoteID identity.AgentID
	Closed   bool
}

// VerifSnapshot returns the tracked connections and the connection counter.
func (h *Handler) VerifSnapshot() ([]VerifConn, int64) {
	h.mu.RLock()
	defer h.mu.RUnlock()
	var out []VerifConn
	for id, ac := range h.connections {
		out = append(out, VerifConn{id, ac.RemoteID, ac.IsClosed()})
	}
	return out, h.connCount.Load()
}

// VerifAllowedRoutes returns the current allowed networks as strings.
func (h *Handler) VerifAllowedRoutes() []string {
	h.routesMu.RLock()
	defer h.routesMu.RUnlock()
	var out []string
	for _, n := range h.cfg.AllowedRoutes {
		out = append(out, n.String())
	}
	return out
}

// VerifSeedDNS pre-seeds the resolver cache (no real DNS in the sandbox).
func (h *Handler) VerifResolver() *Resolver { return h.resolver }

// VerifSeedDNS pre-seeds the resolver cache so that a name resolves without real DNS.
func (h *Handler) VerifSeedDNS(name string, ip net.IP) {
	h.resolver.setCache(name, ip, time.Hour)
}

// VerifSessionKey returns the raw session key of a tracked connection.
func (h *Handler) VerifSessionKey(streamID uint64) ([32]byte, bool) {
	h.mu.RLock()
	defer h.mu.RUnlock()
	ac := h.connections[streamID]
	if ac == nil || ac.sessionKey == nil {
		return [32]byte{}, false
	}
	return ac.sessionKey.Key(), true
}
