//go:build verif

package udp

// VerifSessionKey returns the raw session key of an association (ok=false if none / no key).
func (h *Handler) VerifSessionKey(streamID uint64) ([32]byte, bool, bool) {
	h.mu.RLock()
	a := h.associations[streamID]
	h.mu.RUnlock()
	if a == nil {
		return [32]byte{}, false, false
	}
	k := a.GetSessionKey()
	if k == nil {
		return [32]byte{}, false, true
	}
	return k.Key(), true, true
}
